//! Shared simulator core: the one PRNG every decision is drawn from, the parallel
//! batch runner whose reduction is independent of the worker count, a delta debugger
//! over explicit event lists, and small helpers (FNV hashing, hex, panic capture, CLI args).
//!
//! Rules kept everywhere in this crate and its users:
//! * no clock reads, no `HashMap`/`HashSet` iteration, no `thread_rng` in any decision path;
//! * every run `i` of a batch owns `Rng::for_run(seed, engine, i)`, so runs are independent of
//!   the order in which workers pick them up;
//! * logging never draws from a generator.

use std::cell::RefCell;
use std::collections::{BTreeMap, BTreeSet};
use std::sync::atomic::{AtomicU64, Ordering};
use std::sync::Mutex;

pub use serde_json::{self, json, Map, Value};

pub const DEFAULT_SEED: u64 = 20260924;

// ---------------------------------------------------------------------------------------------
// PRNG: SplitMix64 seeding xoshiro256**
// ---------------------------------------------------------------------------------------------

#[derive(Clone, Debug)]
pub struct Rng {
    s: [u64; 4],
}

pub fn splitmix64(x: &mut u64) -> u64 {
    *x = x.wrapping_add(0x9E37_79B9_7F4A_7C15);
    let mut z = *x;
    z = (z ^ (z >> 30)).wrapping_mul(0xBF58_476D_1CE4_E5B9);
    z = (z ^ (z >> 27)).wrapping_mul(0x94D0_49BB_1331_11EB);
    z ^ (z >> 31)
}

pub fn fnv1a(bytes: &[u8]) -> u64 {
    let mut h: u64 = 0xcbf2_9ce4_8422_2325;
    for &b in bytes {
        h ^= b as u64;
        h = h.wrapping_mul(0x0000_0100_0000_01B3);
    }
    h
}

impl Rng {
    pub fn new(seed: u64) -> Rng {
        let mut x = seed;
        let s = [
            splitmix64(&mut x),
            splitmix64(&mut x),
            splitmix64(&mut x),
            splitmix64(&mut x),
        ];
        Rng { s }
    }

    /// Private generator of run `index` of engine/stream `stream` under `seed`.
    pub fn for_run(seed: u64, stream: &str, index: u64) -> Rng {
        let mut x = seed ^ fnv1a(stream.as_bytes()).rotate_left(17);
        let a = splitmix64(&mut x);
        let mut y = a ^ index.wrapping_mul(0xD6E8_FEB8_6659_FD93);
        let b = splitmix64(&mut y);
        Rng::new(a ^ b.rotate_left(29) ^ index)
    }

    pub fn next_u64(&mut self) -> u64 {
        let result = self.s[1].wrapping_mul(5).rotate_left(7).wrapping_mul(9);
        let t = self.s[1] << 17;
        self.s[2] ^= self.s[0];
        self.s[3] ^= self.s[1];
        self.s[1] ^= self.s[2];
        self.s[0] ^= self.s[3];
        self.s[2] ^= t;
        self.s[3] = self.s[3].rotate_left(45);
        result
    }

    /// Uniform in `0..n` (n > 0). Modulo bias is irrelevant for a search heuristic.
    pub fn below(&mut self, n: usize) -> usize {
        debug_assert!(n > 0);
        (self.next_u64() % n as u64) as usize
    }

    /// Uniform in `lo..=hi`.
    pub fn range(&mut self, lo: usize, hi: usize) -> usize {
        lo + self.below(hi - lo + 1)
    }

    /// True with probability `num/den`.
    pub fn chance(&mut self, num: u32, den: u32) -> bool {
        (self.next_u64() % den as u64) < num as u64
    }

    pub fn pick<'a, T>(&mut self, xs: &'a [T]) -> &'a T {
        &xs[self.below(xs.len())]
    }

    /// Index drawn according to integer weights.
    pub fn weighted(&mut self, weights: &[u32]) -> usize {
        let total: u64 = weights.iter().map(|&w| w as u64).sum();
        let mut r = self.next_u64() % total.max(1);
        for (i, &w) in weights.iter().enumerate() {
            if r < w as u64 {
                return i;
            }
            r -= w as u64;
        }
        weights.len() - 1
    }

    pub fn bytes16(&mut self) -> [u8; 16] {
        let mut out = [0u8; 16];
        out[..8].copy_from_slice(&self.next_u64().to_le_bytes());
        out[8..].copy_from_slice(&self.next_u64().to_le_bytes());
        out
    }
}

// ---------------------------------------------------------------------------------------------
// hex
// ---------------------------------------------------------------------------------------------

pub fn to_hex(b: &[u8]) -> String {
    let mut s = String::with_capacity(b.len() * 2);
    for x in b {
        s.push_str(&format!("{:02x}", x));
    }
    s
}

pub fn from_hex(s: &str) -> Option<Vec<u8>> {
    if s.len() % 2 != 0 {
        return None;
    }
    (0..s.len() / 2)
        .map(|i| u8::from_str_radix(s.get(2 * i..2 * i + 2)?, 16).ok())
        .collect()
}

/// Printable rendering of bytes for human-readable violation texts.
pub fn show_bytes(b: &[u8]) -> String {
    match std::str::from_utf8(b) {
        Ok(s) => format!("{:?}", s),
        Err(_) => format!("hex:{}", to_hex(b)),
    }
}

// ---------------------------------------------------------------------------------------------
// Panic capture: expected panics are part of the simulated fault space, so the default hook
// (which prints to stderr) is replaced by one that stores the message per thread.
// ---------------------------------------------------------------------------------------------

thread_local! {
    static LAST_PANIC: RefCell<Option<String>> = const { RefCell::new(None) };
}

pub fn install_quiet_panic_hook() {
    std::panic::set_hook(Box::new(|info| {
        let msg = if let Some(s) = info.payload().downcast_ref::<&str>() {
            (*s).to_string()
        } else if let Some(s) = info.payload().downcast_ref::<String>() {
            s.clone()
        } else {
            "<non-string panic payload>".to_string()
        };
        let loc = info
            .location()
            .map(|l| format!(" at {}:{}", l.file(), l.line()))
            .unwrap_or_default();
        LAST_PANIC.with(|p| *p.borrow_mut() = Some(format!("{msg}{loc}")));
    }));
}

pub fn take_last_panic() -> String {
    LAST_PANIC
        .with(|p| p.borrow_mut().take())
        .unwrap_or_else(|| "<no message>".into())
}

/// Run `f`, converting an unwinding panic into `Err(message)`.
pub fn catch<R>(f: impl FnOnce() -> R) -> Result<R, String> {
    match std::panic::catch_unwind(std::panic::AssertUnwindSafe(f)) {
        Ok(r) => Ok(r),
        Err(_) => Err(take_last_panic()),
    }
}

// ---------------------------------------------------------------------------------------------
// Batch runner
// ---------------------------------------------------------------------------------------------

/// What a single run reports. Everything here is reduced commutatively (sums, set unions,
/// minimum index), so the reduced batch is identical for any worker count.
#[derive(Default, Clone, Debug)]
pub struct RunReport {
    /// hash of (definition, input, event trace); counted in `distinct_nontrivial` if `nontrivial`
    pub trace_hash: u64,
    pub nontrivial: bool,
    pub steps: u64,
    /// reach counters: faults fired, probes hit
    pub counters: Vec<(&'static str, u64)>,
    /// complete description of the run (only kept for a handful of indices, as samples)
    pub sample: Option<Value>,
    /// violation found by this run: (class key, human text, replay object)
    pub failure: Option<Failure>,
}

#[derive(Clone, Debug)]
pub struct Failure {
    /// coarse class used to keep one representative per kind of violation
    pub class: String,
    pub what: String,
    /// complete replay object (before minimisation)
    pub replay: Value,
}

#[derive(Default, Debug)]
pub struct Batch {
    pub evaluations: u64,
    pub nontrivial_runs: u64,
    pub distinct_nontrivial: u64,
    pub steps: u64,
    pub counters: BTreeMap<String, u64>,
    pub samples: Vec<Value>,
    /// lowest-index failing run per class: class -> (run index, failure)
    pub failures: BTreeMap<String, (u64, Failure)>,
    pub failing_runs: u64,
}

/// Execute runs `0..n` on `workers` threads. `f(index)` must be a pure function of `index`
/// (and of captured immutable data).
static WINDOW_FIRST: AtomicU64 = AtomicU64::new(0);
static WINDOW_COUNT: AtomicU64 = AtomicU64::new(u64::MAX);

/// Restrict every following `run_batch` to the run indices `first .. first + count` (used by the runner to isolate
/// the run during which the code under test crashed or hung the process: `--first` / `--count`).
pub fn set_index_window(first: u64, count: u64) {
    WINDOW_FIRST.store(first, Ordering::Relaxed);
    WINDOW_COUNT.store(count, Ordering::Relaxed);
}

pub fn run_batch<F>(n: u64, workers: usize, sample_every: u64, f: F) -> Batch
where
    F: Fn(u64, bool) -> RunReport + Sync,
{
    let first = WINDOW_FIRST.load(Ordering::Relaxed).min(n);
    let n = first.saturating_add(WINDOW_COUNT.load(Ordering::Relaxed)).min(n);
    let next = AtomicU64::new(first);
    let merged: Mutex<(Batch, BTreeSet<u64>, BTreeMap<u64, Value>)> =
        Mutex::new((Batch::default(), BTreeSet::new(), BTreeMap::new()));
    let workers = workers.max(1);
    std::thread::scope(|scope| {
        for _ in 0..workers {
            // Generous stacks: the default tail-call lexers recurse once per byte when the build does not turn the
            // calls into jumps (dev profile), so a few KiB of input in one token or in consecutive skips needs
            // megabytes of stack. That is logos' documented trade-off (C06, state_machine_codegen), not a verdict
            // for the properties simulated here; the pages are only touched if used.
            let builder = std::thread::Builder::new().stack_size(1 << 30);
            let _ = builder.spawn_scoped(scope, || {
                let mut local = Batch::default();
                let mut hashes: BTreeSet<u64> = BTreeSet::new();
                let mut samples: BTreeMap<u64, Value> = BTreeMap::new();
                loop {
                    let i = next.fetch_add(1, Ordering::Relaxed);
                    if i >= n {
                        break;
                    }
                    let want_sample = sample_every > 0 && i % sample_every == 0 && i / sample_every < 4;
                    let rep = f(i, want_sample);
                    local.evaluations += 1;
                    local.steps += rep.steps;
                    if rep.nontrivial {
                        local.nontrivial_runs += 1;
                        hashes.insert(rep.trace_hash);
                    }
                    for (k, v) in rep.counters {
                        if v != 0 {
                            *local.counters.entry(k.to_string()).or_insert(0) += v;
                        }
                    }
                    if let Some(s) = rep.sample {
                        samples.insert(i, s);
                    }
                    if let Some(fail) = rep.failure {
                        local.failing_runs += 1;
                        let keep = match local.failures.get(&fail.class) {
                            Some((j, _)) => i < *j,
                            None => true,
                        };
                        if keep && (local.failures.len() < 64 || local.failures.contains_key(&fail.class)) {
                            local.failures.insert(fail.class.clone(), (i, fail));
                        }
                    }
                }
                let mut g = merged.lock().unwrap();
                g.0.evaluations += local.evaluations;
                g.0.steps += local.steps;
                g.0.nontrivial_runs += local.nontrivial_runs;
                g.0.failing_runs += local.failing_runs;
                for (k, v) in local.counters {
                    *g.0.counters.entry(k).or_insert(0) += v;
                }
                for (class, (i, fail)) in local.failures {
                    let keep = match g.0.failures.get(&class) {
                        Some((j, _)) => i < *j,
                        None => true,
                    };
                    if keep {
                        g.0.failures.insert(class, (i, fail));
                    }
                }
                g.1.extend(hashes);
                g.2.extend(samples);
            }).expect("spawn worker");
        }
    });
    let (mut batch, hashes, samples) = merged.into_inner().unwrap();
    batch.distinct_nontrivial = hashes.len() as u64;
    batch.samples = samples.into_values().collect();
    batch
}

impl Batch {
    pub fn to_json(&self) -> Value {
        json!({
            "evaluations": self.evaluations,
            "nontrivial_runs": self.nontrivial_runs,
            "distinct_nontrivial": self.distinct_nontrivial,
            "logical_steps": self.steps,
            "counters": self.counters,
            "samples": self.samples,
            "failing_runs": self.failing_runs,
        })
    }
}

// ---------------------------------------------------------------------------------------------
// Delta debugging over an explicit list
// ---------------------------------------------------------------------------------------------

/// Shrink `items` while `still_fails` holds: remove chunks of decreasing size, then single
/// elements, until a fixpoint. `still_fails` is called with candidate lists only; the result is
/// 1-minimal with respect to element removal. The number of oracle calls is capped.
pub fn ddmin<T: Clone>(items: &[T], budget: &mut u32, mut still_fails: impl FnMut(&[T]) -> bool) -> Vec<T> {
    let mut cur: Vec<T> = items.to_vec();
    let mut chunk = (cur.len() / 2).max(1);
    while !cur.is_empty() && *budget > 0 {
        let mut removed_any = false;
        let mut i = 0;
        while i < cur.len() && *budget > 0 {
            let end = (i + chunk).min(cur.len());
            let mut cand = Vec::with_capacity(cur.len() - (end - i));
            cand.extend_from_slice(&cur[..i]);
            cand.extend_from_slice(&cur[end..]);
            *budget -= 1;
            if still_fails(&cand) {
                cur = cand;
                removed_any = true;
            } else {
                i += chunk;
            }
        }
        if chunk == 1 {
            if !removed_any {
                break;
            }
        } else {
            chunk = (chunk / 2).max(1);
        }
    }
    cur
}

// ---------------------------------------------------------------------------------------------
// CLI helpers
// ---------------------------------------------------------------------------------------------

#[derive(Debug, Default)]
pub struct Args {
    pub map: BTreeMap<String, String>,
    pub flags: BTreeSet<String>,
}

impl Args {
    /// `--key value` pairs and `--flag` booleans (a flag is a `--x` followed by another `--y` or
    /// by nothing).
    pub fn parse() -> Args {
        let v: Vec<String> = std::env::args().skip(1).collect();
        let mut a = Args::default();
        let mut i = 0;
        while i < v.len() {
            if let Some(k) = v[i].strip_prefix("--") {
                if i + 1 < v.len() && !v[i + 1].starts_with("--") {
                    a.map.insert(k.to_string(), v[i + 1].clone());
                    i += 2;
                } else {
                    a.flags.insert(k.to_string());
                    i += 1;
                }
            } else {
                eprintln!("unexpected argument {:?}", v[i]);
                std::process::exit(2);
            }
        }
        if a.map.contains_key("first") || a.map.contains_key("count") {
            set_index_window(a.num("first", 0), a.num("count", u64::MAX));
        }
        a
    }
    pub fn get(&self, k: &str) -> Option<&str> {
        self.map.get(k).map(|s| s.as_str())
    }
    pub fn num(&self, k: &str, default: u64) -> u64 {
        match self.get(k) {
            Some(s) => s.parse().unwrap_or_else(|_| {
                eprintln!("--{k}: not a number: {s}");
                std::process::exit(2)
            }),
            None => default,
        }
    }
    pub fn flag(&self, k: &str) -> bool {
        self.flags.contains(k)
    }
}

pub fn write_json(path: &str, v: &Value) {
    let s = serde_json::to_string_pretty(v).expect("serialise");
    if let Some(parent) = std::path::Path::new(path).parent() {
        let _ = std::fs::create_dir_all(parent);
    }
    std::fs::write(path, s + "\n").unwrap_or_else(|e| {
        eprintln!("cannot write {path}: {e}");
        std::process::exit(2)
    });
}

pub fn read_json(path: &str) -> Value {
    let s = std::fs::read_to_string(path).unwrap_or_else(|e| {
        eprintln!("cannot read {path}: {e}");
        std::process::exit(2)
    });
    serde_json::from_str(&s).unwrap_or_else(|e| {
        eprintln!("cannot parse {path}: {e}");
        std::process::exit(2)
    })
}

/// Build description compiled into every engine binary so that results name the configuration
/// that actually produced them.
#[macro_export]
macro_rules! build_info {
    () => {{
        let mut feats: Vec<&str> = Vec::new();
        if cfg!(feature = "forbid_unsafe") {
            feats.push("forbid_unsafe");
        }
        if cfg!(feature = "state_machine_codegen") {
            feats.push("state_machine_codegen");
        }
        // measured, not assumed: does `u8::MAX + 1` panic in this crate's build?
        #[allow(arithmetic_overflow)]
        let overflow_checks = {
            let r = ::std::panic::catch_unwind(|| {
                let x = ::std::hint::black_box(u8::MAX);
                ::std::hint::black_box(x + ::std::hint::black_box(1u8));
            });
            let _ = $crate::take_last_panic();
            r.is_err()
        };
        let debug_assertions = cfg!(debug_assertions);
        $crate::json!({
            "debug_assertions": debug_assertions,
            "overflow_checks": overflow_checks,
            "features": feats,
        })
    }};
}

/// The hash-key seam, instantiated in a binary crate: defines the `getrandom` symbol std resolves
/// (weakly) for `RandomState` keys. A thread that called `set_thread_hash_keys` gets those bytes; any
/// other thread gets the real system call. Also provides `with_hash_keys(keys, f)`, which runs `f` on a
/// fresh OS thread whose keys are `keys` (one simulated thread / process).
#[macro_export]
macro_rules! define_hash_key_seam {
    () => {
        thread_local! {
            static __SEAM_KEYS: ::std::cell::Cell<Option<[u8; 16]>> = const { ::std::cell::Cell::new(None) };
            static __SEAM_SERVED: ::std::cell::Cell<u32> = const { ::std::cell::Cell::new(0) };
        }

        #[no_mangle]
        pub unsafe extern "C" fn getrandom(buf: *mut u8, len: usize, flags: u32) -> isize {
            match __SEAM_KEYS.with(|k| k.get()) {
                Some(bytes) => {
                    for i in 0..len {
                        *buf.add(i) = bytes[i % 16];
                    }
                    __SEAM_SERVED.with(|s| s.set(s.get() + 1));
                    len as isize
                }
                None => {
                    extern "C" {
                        fn syscall(num: i64, ...) -> i64;
                    }
                    // SYS_getrandom = 318 on x86_64
                    syscall(318, buf, len, flags) as isize
                }
            }
        }

        // The clock seam. logos-codegen reads no clock on the pinned tree; the simulator owns the symbol all the same, so
        // that a dependence on elapsed time (a time budget, a timestamp in the output) becomes a visible, replayable
        // difference instead of a flaky one. On a simulated thread with a clock step of n > 0 nanoseconds every call of
        // clock_gettime (std's Instant::now / SystemTime::now) returns a time n ns later than the previous call: a machine
        // that is arbitrarily fast or slow. Harness threads (step 0) get the real clock.
        thread_local! {
            static __SEAM_CLOCK_STEP: ::std::cell::Cell<u64> = const { ::std::cell::Cell::new(0) };
            static __SEAM_CLOCK_NOW: ::std::cell::Cell<u64> = const { ::std::cell::Cell::new(0) };
            static __SEAM_CLOCK_CALLS: ::std::cell::Cell<u32> = const { ::std::cell::Cell::new(0) };
        }

        #[no_mangle]
        pub unsafe extern "C" fn clock_gettime(clk: i32, ts: *mut [i64; 2]) -> i32 {
            let step = __SEAM_CLOCK_STEP.with(|c| c.get());
            if step == 0 || ts.is_null() {
                extern "C" {
                    fn syscall(num: i64, ...) -> i64;
                }
                // SYS_clock_gettime = 228 on x86_64
                return syscall(228, clk as i64, ts) as i32;
            }
            let now = __SEAM_CLOCK_NOW.with(|c| { let t = c.get().saturating_add(step); c.set(t); t });
            __SEAM_CLOCK_CALLS.with(|c| c.set(c.get() + 1));
            // an arbitrary epoch well after boot / 1970
            let t = 1_700_000_000_000_000_000u64.saturating_add(now);
            (*ts)[0] = (t / 1_000_000_000) as i64;
            (*ts)[1] = (t % 1_000_000_000) as i64;
            0
        }

        /// Clock reads served by the seam on this thread.
        #[allow(dead_code)]
        pub fn seam_clock_calls_on_this_thread() -> u32 {
            __SEAM_CLOCK_CALLS.with(|s| s.get())
        }

        /// Run `f` on a fresh OS thread with hash keys `keys` and a simulated clock that advances `step_ns` per read
        /// (0: the real clock).
        #[allow(dead_code)]
        pub fn with_hash_keys_and_clock<R: Send + 'static>(keys: [u8; 16], step_ns: u64, f: impl FnOnce() -> R + Send + 'static) -> R {
            ::std::thread::Builder::new()
                .stack_size(64 << 20)
                .spawn(move || {
                    __SEAM_KEYS.with(|k| k.set(Some(keys)));
                    __SEAM_CLOCK_STEP.with(|c| c.set(step_ns));
                    f()
                })
                .expect("spawn")
                .join()
                .expect("simulated thread panicked outside catch")
        }

        #[allow(dead_code)]
        pub fn seam_served_on_this_thread() -> u32 {
            __SEAM_SERVED.with(|s| s.get())
        }

        /// Run `f` on a fresh OS thread whose std hash keys are `keys`.
        #[allow(dead_code)]
        pub fn with_hash_keys<R: Send + 'static>(keys: [u8; 16], f: impl FnOnce() -> R + Send + 'static) -> R {
            ::std::thread::Builder::new()
                .stack_size(64 << 20)
                .spawn(move || {
                    __SEAM_KEYS.with(|k| k.set(Some(keys)));
                    f()
                })
                .expect("spawn")
                .join()
                .expect("simulated thread panicked outside catch")
        }
    };
}

#[cfg(test)]
mod tests {
    use super::*;
    #[test]
    fn rng_repeatable() {
        let mut a = Rng::for_run(1, "x", 7);
        let mut b = Rng::for_run(1, "x", 7);
        for _ in 0..100 {
            assert_eq!(a.next_u64(), b.next_u64());
        }
        let mut c = Rng::for_run(1, "x", 8);
        assert_ne!(a.next_u64(), c.next_u64());
    }
    #[test]
    fn ddmin_minimal() {
        let items: Vec<u32> = (0..50).collect();
        let mut budget = 10_000;
        let r = ddmin(&items, &mut budget, |c| c.contains(&7) && c.contains(&33));
        assert_eq!(r, vec![7, 33]);
    }
    #[test]
    fn batch_worker_independent() {
        let f = |i: u64, s: bool| RunReport {
            trace_hash: i % 10,
            nontrivial: i % 3 == 0,
            steps: i,
            counters: vec![("a", i % 2)],
            sample: if s { Some(json!(i)) } else { None },
            failure: if i % 97 == 5 { Some(Failure { class: format!("c{}", i % 2), what: "w".into(), replay: json!(i) }) } else { None },
        };
        let a = run_batch(1000, 1, 100, f);
        let b = run_batch(1000, 16, 100, f);
        assert_eq!(a.to_json(), b.to_json());
        assert_eq!(format!("{:?}", a.failures), format!("{:?}", b.failures));
    }
}
