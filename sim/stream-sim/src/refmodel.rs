//! Reference model used only by the timeliness oracles P5/P6 and by the input generator.
//!
//! Built from the corpus metadata with regex-syntax / regex-automata directly: an anchored dense
//! DFA over all patterns with `MatchKind::All`; the winner of a match state is the pattern with
//! the highest (explicit) priority. None of logos' graph rewriting, pruning, de-duplication or
//! code rendering is involved. See DESIGN.md section 4.1.5.

use corpus::{CbKind, DefInfo, Outcome, PatInfo};
use regex_automata::{
    dfa::{dense, Automaton, StartKind},
    nfa::thompson,
    util::primitives::StateID,
    Anchored, MatchKind,
};
use regex_syntax::hir::Hir;
use std::collections::HashMap;

pub struct Ref {
    pub dfa: dense::DFA<Vec<u32>>,
    pub start: StateID,
    prio: Vec<usize>,
    cb: Vec<CbKind>,
    /// per state: (is match state, winner pattern, a match state is reachable in >= 1 transitions)
    info: HashMap<StateID, (Option<usize>, bool)>,
    pub has_look: bool,
    pub utf8: bool,
    pub states: usize,
}

#[derive(Debug, Clone, PartialEq)]
pub enum Det {
    Undetermined,
    /// a match of pattern `pat` ending at `end` (relative to the start of the text given)
    Match { end: usize, pat: usize },
    Error { end: usize },
}

fn pattern_string(p: &PatInfo, literal: bool) -> String {
    if p.unicode {
        let s = std::str::from_utf8(p.lit).expect("str literal");
        if literal {
            regex_syntax::escape(s)
        } else {
            s.to_string()
        }
    } else {
        // byte-string literal: ASCII as is, everything else as \xNN (what the pattern means)
        let mut out = String::new();
        for &b in p.lit {
            if b <= 127 {
                if literal {
                    regex_syntax::escape_into(&(b as char).to_string(), &mut out);
                } else {
                    out.push(b as char);
                }
            } else {
                out.push_str(&format!("\\x{:02X}", b));
            }
        }
        out
    }
}

fn hir_of(p: &PatInfo) -> Hir {
    if p.is_token && !p.ignore_case {
        return Hir::literal(p.lit.to_vec());
    }
    let src = pattern_string(p, p.is_token);
    regex_syntax::ParserBuilder::new()
        .utf8(false)
        .unicode(p.unicode)
        .case_insensitive(p.ignore_case)
        .build()
        .parse(&src)
        .unwrap_or_else(|e| panic!("reference model cannot parse {:?}: {}", src, e))
}

impl Ref {
    pub fn new(def: &DefInfo) -> Ref {
        let hirs: Vec<Hir> = def.pats.iter().map(hir_of).collect();
        let has_look = hirs.iter().any(|h| !h.properties().look_set().is_empty());
        let nfa = thompson::NFA::compiler()
            .configure(thompson::NFA::config().utf8(def.utf8).shrink(false))
            .build_many_from_hir(&hirs)
            .expect("reference NFA");
        let dfa = dense::DFA::builder()
            .configure(
                dense::DFA::config()
                    .match_kind(MatchKind::All)
                    .start_kind(StartKind::Anchored)
                    .minimize(false)
                    .accelerate(false),
            )
            .build_from_nfa(&nfa)
            .expect("reference DFA");
        let start = dfa.universal_start_state(Anchored::Yes).expect("universal start");
        let mut r = Ref {
            dfa,
            start,
            prio: def.pats.iter().map(|p| p.prio).collect(),
            cb: def.pats.iter().map(|p| p.cb).collect(),
            info: HashMap::new(),
            has_look,
            utf8: def.utf8,
            states: 0,
        };
        r.analyse();
        r
    }

    fn winner_raw(&self, s: StateID) -> Option<usize> {
        if !self.dfa.is_match_state(s) {
            return None;
        }
        (0..self.dfa.match_len(s))
            .map(|i| self.dfa.match_pattern(s, i).as_usize())
            .max_by_key(|&p| (self.prio[p], usize::MAX - p))
    }

    fn succ(&self, s: StateID) -> Vec<StateID> {
        let mut v: Vec<StateID> = (0..=255u8).map(|b| self.dfa.next_state(s, b)).collect();
        v.push(self.dfa.next_eoi_state(s));
        v
    }

    fn analyse(&mut self) {
        // reachable states
        let mut order = vec![self.start];
        let mut index: HashMap<StateID, usize> = HashMap::new();
        index.insert(self.start, 0);
        let mut i = 0;
        let mut edges: Vec<Vec<usize>> = Vec::new();
        while i < order.len() {
            let s = order[i];
            let mut out = Vec::new();
            for t in self.succ(s) {
                let j = *index.entry(t).or_insert_with(|| {
                    order.push(t);
                    order.len() - 1
                });
                out.push(j);
            }
            out.sort_unstable();
            out.dedup();
            edges.push(out);
            i += 1;
        }
        let n = order.len();
        let is_match: Vec<bool> = order.iter().map(|&s| self.dfa.is_match_state(s)).collect();
        // can reach a match state in >= 1 transitions: backward fixpoint
        let mut crm = vec![false; n];
        let mut changed = true;
        while changed {
            changed = false;
            for s in 0..n {
                if !crm[s] && edges[s].iter().any(|&t| is_match[t] || crm[t]) {
                    crm[s] = true;
                    changed = true;
                }
            }
        }
        for (k, &s) in order.iter().enumerate() {
            self.info.insert(s, (self.winner_raw(s), crm[k]));
        }
        self.states = n;
    }

    #[inline]
    pub fn winner(&self, s: StateID) -> Option<usize> {
        self.info[&s].0
    }
    /// a match state is reachable from `s` in at least one more transition (byte or end of input)
    #[inline]
    pub fn viable(&self, s: StateID) -> bool {
        self.info[&s].1
    }

    pub fn outcome(&self, pat: usize, len: usize) -> Outcome {
        self.cb[pat].outcome(len)
    }

    /// First item of `p` starting at offset 0. `complete` says whether `p` is the whole remaining
    /// input; for a prefix the answer is `Undetermined` whenever some continuation (including
    /// "nothing follows") could change the item.
    pub fn first(&self, p: &[u8], complete: bool) -> Det {
        let mut s = self.start;
        let mut best: Option<(usize, usize)> = None;
        let round = |mut e: usize| {
            if self.utf8 {
                while e < p.len() && (p[e] & 0xC0) == 0x80 {
                    e += 1;
                }
            }
            e
        };
        for (i, &b) in p.iter().enumerate() {
            s = self.dfa.next_state(s, b);
            if let Some(w) = self.winner(s) {
                // matches are delayed by one transition: this one ended before byte i
                best = Some((i, w));
            }
            if !self.viable(s) {
                // the automaton died on byte i
                return match best {
                    Some((e, w)) => Det::Match { end: e, pat: w },
                    None => Det::Error { end: round(i.max(1)) },
                };
            }
        }
        if complete {
            let e = self.dfa.next_eoi_state(s);
            if let Some(w) = self.winner(e) {
                best = Some((p.len(), w));
            }
            return match best {
                Some((e, w)) => Det::Match { end: e, pat: w },
                None => Det::Error { end: round(p.len().max(1)) },
            };
        }
        // alive at the end of the prefix
        let mut longer = false;
        let mut outs: Vec<Option<usize>> = Vec::with_capacity(257);
        for b in 0..=255u8 {
            let t = self.dfa.next_state(s, b);
            if self.viable(t) {
                longer = true;
                break;
            }
            outs.push(self.winner(t));
        }
        if longer {
            return Det::Undetermined;
        }
        outs.push(self.winner(self.dfa.next_eoi_state(s)));
        let first = outs[0];
        if outs.iter().any(|o| *o != first) {
            return Det::Undetermined;
        }
        match first {
            Some(w) => Det::Match { end: p.len(), pat: w },
            None => match best {
                Some((e, w)) => Det::Match { end: e, pat: w },
                // an error whose end depends on the next byte
                None => Det::Undetermined,
            },
        }
    }

    /// Is a (shorter) match already recorded for prefix `p` although longer ones are possible?
    pub fn has_recorded_match(&self, p: &[u8]) -> bool {
        let mut s = self.start;
        let mut any = false;
        for &b in p {
            s = self.dfa.next_state(s, b);
            if self.winner(s).is_some() {
                any = true;
            }
            if !self.viable(s) {
                return false;
            }
        }
        any
    }

    /// Reference lexing of a complete input: (is_ok, start, end) of every yielded item.
    pub fn lex_all(&self, s: &[u8]) -> Option<Vec<(bool, usize, usize)>> {
        let mut pos = 0;
        let mut out = Vec::new();
        while pos < s.len() {
            match self.first(&s[pos..], true) {
                Det::Match { end, pat } => {
                    if end == 0 {
                        return None;
                    }
                    match self.outcome(pat, end) {
                        Outcome::Emit => out.push((true, pos, pos + end)),
                        Outcome::Error => out.push((false, pos, pos + end)),
                        Outcome::Skip => {}
                    }
                    pos += end;
                }
                Det::Error { end } => {
                    out.push((false, pos, pos + end));
                    pos += end;
                }
                Det::Undetermined => return None,
            }
        }
        Some(out)
    }

    /// Bytes that keep the automaton viable (or complete a match) from state `s`.
    pub fn good_bytes(&self, s: StateID) -> Vec<u8> {
        (0..=255u8)
            .filter(|&b| {
                let t = self.dfa.next_state(s, b);
                self.viable(t) || self.winner(t).is_some()
            })
            .collect()
    }
}
