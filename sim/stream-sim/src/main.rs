//! stream-sim: deterministic simulation of partial (streaming) lexing — property C07.
//! See DESIGN.md section 4.1.
//!
//!  SimReader (scripted events) --bytes--> StreamDriver (stub, two variants) --> Lexer::new_partial / Lexer::new
//!                                                                                 (REAL generated code + runtime)
//!  committed items --> oracles P1..P6, L1 (one-shot lexing by the same generated code; reference DFA for
//!                      determinedness)

mod refmodel;

use corpus::{DefInfo, Item, Outcome, DEFS};
use refmodel::{Det, Ref};
use simcore::*;
use std::collections::BTreeMap;

// ---------------------------------------------------------------------------------------------
// Events and scenarios
// ---------------------------------------------------------------------------------------------

#[derive(Clone, Debug, PartialEq)]
pub enum Ev {
    /// the reader returns `n >= 1` bytes (short read) — `Ok(0)`, i.e. end of stream, once everything was delivered
    Read(usize),
    /// the reader returns `ErrorKind::Interrupted`; the driver retries
    Intr,
    /// the reader returns `Ok(0)` although bytes remain (connection closed, file cut)
    Truncate,
    /// the reader returns a hard error; the driver stops without finishing
    HardErr,
    /// the driver drops the consumed prefix of its buffer
    Compact,
    /// the buffer moves to a fresh allocation of exactly its length
    Realloc,
    /// the consumer crashes after committing `k` more items (0: right now); only the number of committed
    /// items and the resume offset survive; a new consumer re-opens the stream at that offset
    Restart(usize),
}

#[derive(Clone, Debug)]
pub struct Scenario {
    pub def: String,
    pub input: Vec<u8>,
    /// driver variant A (`examples/json_reader.rs`: a fresh partial lexer per item) or
    /// B (`book/src/partial.md`: one partial lexer per buffer fill, resumed at the reported position)
    pub per_item: bool,
    /// lex from a private allocation of exactly the view's length
    pub exact_alloc: bool,
    /// build lexers with `partial_with_extras` / `with_extras` (what a consumer that carries extras uses) instead of
    /// `new_partial` / `new`
    pub with_extras: bool,
    /// what the consumer does with its lexer handle between items (corpus::OPS_*): nothing, identity morph, continue on a
    /// clone, iterate through spanned(), clone the spanned iterator
    pub ops: u8,
    pub events: Vec<Ev>,
}

impl Ev {
    fn to_json(&self) -> Value {
        match self {
            Ev::Read(n) => json!({"Read": n}),
            Ev::Restart(k) => json!({"Restart": k}),
            other => json!(format!("{:?}", other)),
        }
    }
    fn from_json(v: &Value) -> Option<Ev> {
        if let Some(s) = v.as_str() {
            return match s {
                "Intr" => Some(Ev::Intr),
                "Truncate" => Some(Ev::Truncate),
                "HardErr" => Some(Ev::HardErr),
                "Compact" => Some(Ev::Compact),
                "Realloc" => Some(Ev::Realloc),
                _ => None,
            };
        }
        if let Some(n) = v.get("Read") {
            return Some(Ev::Read(n.as_u64()? as usize));
        }
        if let Some(n) = v.get("Restart") {
            return Some(Ev::Restart(n.as_u64()? as usize));
        }
        None
    }
}

impl Scenario {
    fn to_json(&self) -> Value {
        json!({
            "definition": self.def,
            "input_hex": to_hex(&self.input),
            "input_text": show_bytes(&self.input),
            "driver": if self.per_item { "A" } else { "B" },
            "exact_alloc": self.exact_alloc,
            "constructor": if self.with_extras { "partial_with_extras" } else { "new_partial" },
            "handle_ops": self.ops,
            "events": self.events.iter().map(|e| e.to_json()).collect::<Vec<_>>(),
        })
    }
    fn from_json(v: &Value) -> Option<Scenario> {
        Some(Scenario {
            def: v.get("definition")?.as_str()?.to_string(),
            input: from_hex(v.get("input_hex")?.as_str()?)?,
            per_item: v.get("driver")?.as_str()? == "A",
            exact_alloc: v.get("exact_alloc")?.as_bool()?,
            with_extras: v.get("constructor").and_then(|c| c.as_str()) == Some("partial_with_extras"),
            ops: v.get("handle_ops").and_then(|o| o.as_u64()).unwrap_or(0) as u8,
            events: v.get("events")?.as_array()?.iter().map(Ev::from_json).collect::<Option<Vec<_>>>()?,
        })
    }
    fn hash(&self) -> u64 {
        fnv1a(self.to_json().to_string().as_bytes())
    }
}

#[derive(Clone, Debug)]
pub struct Violation {
    pub oracle: &'static str,
    pub detail: String,
    pub what: String,
}

#[derive(Default, Clone, Debug)]
pub struct Stats {
    pub c: BTreeMap<&'static str, u64>,
    pub steps: u64,
    pub none_with_pending: bool,
}
impl Stats {
    fn hit(&mut self, k: &'static str) {
        *self.c.entry(k).or_insert(0) += 1;
    }
}

pub struct Outcome_ {
    pub stats: Stats,
    pub violation: Option<Violation>,
    pub committed: Vec<Item>,
}

fn valid_up_to(b: &[u8]) -> usize {
    match std::str::from_utf8(b) {
        Ok(_) => b.len(),
        Err(e) => e.valid_up_to(),
    }
}

fn is_char_boundary(b: &[u8], i: usize) -> bool {
    i == b.len() || (i < b.len() && (b[i] & 0xC0) != 0x80)
}

fn fmt_items(items: &[Item]) -> String {
    let v: Vec<String> = items.iter().map(|i| format!("{}@{}..{}", i.text, i.start, i.end)).collect();
    format!("[{}]", v.join(", "))
}

/// Views longer than this are not given to the reference model (P5/P6 re-walk the buffer per item and fill);
/// the model-free oracles P1-P4, L1 still apply. Set by --ref-limit.
static REF_LIMIT: std::sync::atomic::AtomicUsize = std::sync::atomic::AtomicUsize::new(usize::MAX);

struct Driver<'a> {
    def: &'a DefInfo,
    rf: &'a Ref,
    s: &'a [u8],
    sc: &'a Scenario,
    is_str: bool,
    // oracle state
    oracle: Vec<Item>,
    /// extras (`Carry::store`) after each item of one-shot lexing, and when it ended (stateful definitions)
    oracle_ex: Vec<u64>,
    oracle_ex_end: u64,
    s_eff_len: usize,
    ref_ok: bool,
    // driver state
    buf: Vec<u8>,
    base: usize,
    resume: usize,
    delivered: usize,
    /// highest stream offset any consumer incarnation has seen so far
    high_water: usize,
    committed: Vec<Item>,
    /// extras the consumer carries into its next lexer (0 for stateless definitions)
    carry: u64,
    /// (file offset of a None, items committed before it, extras the lexer held at that None)
    none_points: Vec<(usize, usize, u64)>,
    crash_after: Option<usize>,
    stats: Stats,
}

macro_rules! fail {
    ($oracle:expr, $detail:expr, $($fmt:tt)*) => {
        return Err(Violation { oracle: $oracle, detail: $detail.to_string(), what: format!($($fmt)*) })
    };
}

fn item_kind(text: &str) -> bool {
    text.starts_with("Ok")
}

/// Variant name of an item's Debug text, for signatures: `Ok(Abc)` -> `Ok(Abc`, payload dropped.
fn item_tag(text: &str) -> String {
    let t: String = text.chars().take_while(|c| c.is_alphanumeric() || *c == '(' || *c == '_').collect();
    t
}

impl<'a> Driver<'a> {
    /// one-shot lexing of the effective input by an ordinary lexer (extras start at their default)
    fn set_oracle(&mut self) {
        let s = &self.s[..self.s_eff_len];
        let out = self.def.lex(s, false, 0, s.len() + 2);
        self.oracle = out.items;
        self.oracle_ex = out.extras_after;
        self.oracle_ex_end = out.extras_end;
    }

    /// reference lexing agrees with the code's own one-shot lexing on the whole effective input
    fn compute_ref_ok(&mut self) {
        let s = &self.s[..self.s_eff_len];
        if s.len() > 100_000 {
            // giant inputs: the reference model is not consulted at all (P1-P4, X1, L1 apply)
            self.ref_ok = false;
            self.stats.hit("ref_model_skipped_giant_input");
            return;
        }
        self.ref_ok = match self.rf.lex_all(s) {
            Some(r) => {
                r.len() == self.oracle.len()
                    && r.iter().zip(self.oracle.iter()).all(|(a, b)| a.0 == item_kind(&b.text) && a.1 == b.start && a.2 == b.end)
            }
            None => false,
        };
        if !self.ref_ok {
            self.stats.hit("ref_disagree");
        }
    }

    /// P1 for one freshly committed item (file offsets)
    fn commit(&mut self, it: Item, from_partial: bool, ex_after: u64) -> Result<(), Violation> {
        let idx = self.committed.len();
        if it.end <= it.start {
            fail!("L1", format!("empty:{}", item_tag(&it.text)), "definition {}: item {}@{}..{} has an empty span (no progress)", self.def.name, it.text, it.start, it.end);
        }
        if let Some(last) = self.committed.last() {
            if it.start < last.end {
                fail!("P1", format!("overlap:{}", item_tag(&it.text)), "definition {}: item {}@{}..{} starts before the end of the previous item ({})", self.def.name, it.text, it.start, it.end, last.end);
            }
        }
        match self.oracle.get(idx) {
            Some(o) if *o == it => {}
            other => {
                let mode = if from_partial { "a partial lexer over a prefix" } else { "the finishing ordinary lexer" };
                fail!(
                    "P1",
                    format!("item={}", item_tag(&it.text)),
                    "definition {}: {} committed item #{} {}@{}..{} but one-shot lexing of the {}-byte input {} gives {} there (one-shot: {})",
                    self.def.name, mode, idx, it.text, it.start, it.end, self.s_eff_len, show_bytes(&self.s[..self.s_eff_len]),
                    other.map(|o| format!("{}@{}..{}", o.text, o.start, o.end)).unwrap_or_else(|| "nothing".into()),
                    fmt_items(&self.oracle)
                );
            }
        }
        // X1: the extras the consumer now holds are the extras one-shot lexing holds after the same item, i.e. every
        // stateful callback (token, skip, error) has run exactly once for everything committed so far
        if self.def.stateful {
            self.stats.hit("x1_extras_checked_at_commit");
            if self.oracle_ex.get(idx) != Some(&ex_after) {
                fail!("X1", format!("commit:{}", item_tag(&it.text)),
                    "definition {}: after committing item #{} {}@{}..{} the lexer's extras counter is {} but one-shot lexing of {} holds {} after the same item: a callback ran too often or not at all around a buffer end (one-shot: {})",
                    self.def.name, idx, it.text, it.start, it.end, ex_after, show_bytes(&self.s[..self.s_eff_len]), self.oracle_ex.get(idx).map(|x| x.to_string()).unwrap_or_else(|| "nothing".into()), fmt_items(&self.oracle));
            }
        }
        self.committed.push(it);
        Ok(())
    }

    /// Continuations used to cross-check a verdict of the reference model against the code itself: nothing,
    /// every single byte (ASCII and a few multi-byte characters for str definitions), the corpus fragments.
    fn continuations(&self) -> Vec<Vec<u8>> {
        let mut v: Vec<Vec<u8>> = vec![Vec::new()];
        if self.is_str {
            for b in 0u8..128 { v.push(vec![b]); }
            for m in MULTI { v.push(m.as_bytes().to_vec()); }
        } else {
            for b in 0u8..=255 { v.push(vec![b]); }
        }
        for f in self.def.frags {
            if !self.is_str || std::str::from_utf8(f).is_ok() { v.push(f.to_vec()); }
        }
        v
    }

    /// One-shot lexing (ordinary lexer, same generated code) of `view ++ cont`.
    fn one_shot_extended(&mut self, view: &[u8], cont: &[u8]) -> Vec<Item> {
        let mut s = view.to_vec();
        s.extend_from_slice(cont);
        let out = self.def.lex(&s, false, 0, s.len() + 2);
        self.stats.steps += out.calls as u64;
        out.items
    }

    /// P6: everything between `from` and the end of `it` (view-relative) is determined by the view.
    /// A verdict of the reference model is reported only if the code itself confirms it: there must be a
    /// continuation of the buffer whose one-shot lexing does not contain the committed item. Otherwise the model
    /// and the code disagree about the language (counted, not reported: that is not C07's business).
    fn check_p6(&mut self, view: &[u8], from: usize, it: &Item) -> Result<(), Violation> {
        match self.check_p6_model(view, from, it) {
            Ok(()) => Ok(()),
            Err(mut v) => {
                for c in self.continuations() {
                    let items = self.one_shot_extended(view, &c);
                    if !items.iter().any(|x| x == it) {
                        v.what.push_str(&format!(" [confirmed by the code itself: one-shot lexing of the buffer followed by {} gives {}]", show_bytes(&c), fmt_items(&items)));
                        return Err(v);
                    }
                }
                self.stats.hit("p6_model_verdict_not_confirmed_by_code");
                Ok(())
            }
        }
    }

    fn check_p6_model(&mut self, view: &[u8], from: usize, it: &Item) -> Result<(), Violation> {
        if !self.ref_ok {
            return Ok(());
        }
        if view.len() > REF_LIMIT.load(std::sync::atomic::Ordering::Relaxed) {
            self.stats.hit("ref_model_skipped_long_view");
            return Ok(());
        }
        let mut pos = from;
        loop {
            if pos > it.start {
                // the reference consumed a skip across the item's start: disagreement about skips
                fail!("P6", format!("item={}", item_tag(&it.text)),
                    "definition {}: committed {}@{}..{} from buffer {} but the reference model places a skipped match across its start",
                    self.def.name, it.text, it.start, it.end, show_bytes(view));
            }
            let d = self.rf.first(&view[pos..], false);
            match d {
                Det::Undetermined => {
                    fail!("P6", format!("item={}", item_tag(&it.text)),
                        "definition {}: a partial lexer over the buffer {} committed {}@{}..{}, but by the reference model the item starting at {} is not yet determined (some continuation changes it)",
                        self.def.name, show_bytes(view), it.text, it.start, it.end, pos);
                }
                Det::Match { end, pat } => {
                    let out = self.rf.outcome(pat, end);
                    if out == Outcome::Skip && pos + end <= it.start {
                        if end == 0 { return Ok(()); }
                        pos += end;
                        continue;
                    }
                    let ok = pos == it.start && pos + end == it.end && (out == Outcome::Emit) == item_kind(&it.text) && out != Outcome::Skip;
                    if !ok {
                        fail!("P6", format!("item={}", item_tag(&it.text)),
                            "definition {}: committed {}@{}..{} from buffer {} but the reference model determines a {:?} match of pattern #{} at {}..{}",
                            self.def.name, it.text, it.start, it.end, show_bytes(view), out, pat, pos, pos + end);
                    }
                    return Ok(());
                }
                Det::Error { end } => {
                    let ok = pos == it.start && pos + end == it.end && !item_kind(&it.text);
                    if !ok {
                        fail!("P6", format!("item={}", item_tag(&it.text)),
                            "definition {}: committed {}@{}..{} from buffer {} but the reference model determines an error at {}..{}",
                            self.def.name, it.text, it.start, it.end, show_bytes(view), pos, pos + end);
                    }
                    return Ok(());
                }
            }
        }
    }

    /// P5: at `None` with pending bytes the pending item must really be undetermined
    fn check_p5(&mut self, view: &[u8], r: usize) -> Result<(), Violation> {
        if !self.ref_ok || r >= view.len() {
            return Ok(());
        }
        if view.len() > REF_LIMIT.load(std::sync::atomic::Ordering::Relaxed) {
            return Ok(());
        }
        let det_emitting = |rf: &Ref, v: &[u8]| -> Option<(usize, Det)> {
            let mut pos = r;
            while pos < v.len() {
                match rf.first(&v[pos..], false) {
                    Det::Undetermined => return None,
                    Det::Match { end, pat } => {
                        if rf.outcome(pat, end) == Outcome::Skip {
                            if end == 0 { return None; }
                            pos += end;
                            continue;
                        }
                        return Some((pos, Det::Match { end, pat }));
                    }
                    Det::Error { end } => return Some((pos, Det::Error { end })),
                }
            }
            None
        };
        if let Some((pos, d)) = det_emitting(self.rf, view) {
            if self.rf.has_look {
                // allowed lag: one character
                let mut k1 = view.len() - 1;
                while k1 > 0 && !is_char_boundary(view, k1) {
                    k1 -= 1;
                }
                let earlier = if k1 > r { det_emitting(self.rf, &view[..k1]) } else { None };
                match earlier {
                    Some((p1, d1)) if p1 == pos && d1 == d => {}
                    _ => {
                        self.stats.hit("probe_lookaround_one_byte_lag_used");
                        return Ok(());
                    }
                }
            }
            // cross-check the model against the code: the item the model calls determined must come out of one-shot
            // lexing of the buffer followed by each of the sample continuations; if one of them gives something else
            // at that position, model and code disagree about the language and nothing is reported
            let (want_ok, want_end) = match &d {
                Det::Match { end, pat } => (self.rf.outcome(*pat, *end) == Outcome::Emit, pos + end),
                Det::Error { end } => (false, pos + end),
                Det::Undetermined => unreachable!(),
            };
            for c in self.continuations() {
                let items = self.one_shot_extended(view, &c);
                let found = items.iter().any(|x| x.start == pos && x.end == want_end && item_kind(&x.text) == want_ok);
                if !found {
                    self.stats.hit("p5_model_verdict_not_confirmed_by_code");
                    return Ok(());
                }
            }
            fail!("P5", format!("pending={}", to_hex(&view[r..view.len().min(r + 8)])),
                "definition {}: a partial lexer over the buffer {} returned None at {} although the pending item is already determined ({:?} at {}): no continuation can change it (one-shot lexing of the buffer followed by any of {} sample continuations yields that same item)",
                self.def.name, show_bytes(view), r, d, pos, self.continuations().len());
        }
        Ok(())
    }

    /// One pass of the driver over what the buffer holds. `fin`: the stream has ended, use an ordinary lexer.
    /// Returns Ok(true) if the consumer crashed (Restart) during the round.
    fn lex_round(&mut self, fin: bool) -> Result<bool, Violation> {
        let avail_len = self.buf.len() - self.resume;
        let vlen = if self.is_str { valid_up_to(&self.buf[self.resume..]) } else { avail_len };
        if vlen < avail_len {
            self.stats.hit("probe_held_back_incomplete_utf8_tail");
        }
        let view_vec: Vec<u8>;
        let boxed: Box<[u8]>;
        let view: &[u8] = if self.sc.exact_alloc {
            boxed = self.buf[self.resume..self.resume + vlen].to_vec().into_boxed_slice();
            &boxed
        } else {
            view_vec = self.buf[self.resume..self.resume + vlen].to_vec();
            &view_vec
        };
        let off = self.base + self.resume; // file offset of view[0]
        let partial = !fin;
        let cap = vlen + 2;
        let mut pos = 0usize; // view-relative end of the last commit of this round
        let none_r: Option<usize>;
        let none_ex: u64;
        let mut round_items = 0usize;

        if self.sc.per_item {
            // variant A: a fresh lexer per item, on the rest of the valid buffer
            loop {
                let out = self.def.lex_ops(&view[pos..], partial, self.sc.with_extras, 0, 1, self.carry, self.sc.ops);
                self.stats.steps += out.calls as u64;
                round_items += 1;
                if round_items > cap {
                    fail!("L1", "runaway", "definition {}: more than {} items from a {}-byte buffer", self.def.name, cap, vlen);
                }
                match out.items.first() {
                    Some(it) => {
                        let it = Item { text: it.text.clone(), start: it.start + pos, end: it.end + pos };
                        if it.end > vlen || it.start > it.end {
                            fail!("P2", "span-out-of-buffer", "definition {}: item {}@{}..{} lies outside the {}-byte buffer", self.def.name, it.text, it.start, it.end, vlen);
                        }
                        if partial && it.end == vlen { self.stats.hit(if item_kind(&it.text) { "probe_commit_at_buffer_end" } else { "probe_error_at_buffer_end" }); }
                        let new_pos = it.end;
                        // P1 (model-free) first, then P6 (through the reference model)
                        // the consumer keeps the extras of the lexer that produced the item (it resumes at the item's end)
                        self.carry = out.extras_after[0];
                        self.commit(Item { text: it.text.clone(), start: it.start + off, end: it.end + off }, partial, self.carry)?;
                        if partial { self.check_p6(view, pos, &it)?; }
                        if new_pos <= pos {
                            fail!("L1", "no-progress", "definition {}: driver made no progress at buffer offset {}", self.def.name, pos);
                        }
                        pos = new_pos;
                        if let Some(k) = self.crash_after.as_mut() {
                            *k -= 1;
                            if *k == 0 {
                                self.crash(pos);
                                return Ok(true);
                            }
                        }
                    }
                    None => {
                        let (ns, ne) = out.none_span.unwrap_or((0, 0));
                        self.check_none(view, pos, (ns + pos, ne + pos), out.second.map(|(n, (a, b))| (n, (a + pos, b + pos))), partial)?;
                        none_r = Some(ns + pos);
                        // variant A resumes at the end of the last item, so it drops this lexer together with its extras
                        // (skip callbacks between that item and the None position will run again on the next fill); the
                        // extras the lexer held at None are still checked against the reported position (P3)
                        none_ex = out.extras_end;
                        break;
                    }
                }
            }
        } else {
            // variant B: one lexer per fill
            let out = self.def.lex_ops(view, partial, self.sc.with_extras, 0, cap, self.carry, self.sc.ops);
            self.stats.steps += out.calls as u64;
            if out.none_span.is_none() {
                fail!("L1", "runaway", "definition {}: more than {} items from a {}-byte buffer", self.def.name, cap, vlen);
            }
            for (i, it) in out.items.iter().enumerate() {
                if it.end > vlen || it.start > it.end {
                    fail!("P2", "span-out-of-buffer", "definition {}: item {}@{}..{} lies outside the {}-byte buffer", self.def.name, it.text, it.start, it.end, vlen);
                }
                if partial && it.end == vlen { self.stats.hit(if item_kind(&it.text) { "probe_commit_at_buffer_end" } else { "probe_error_at_buffer_end" }); }
                self.carry = out.extras_after[i];
                self.commit(Item { text: it.text.clone(), start: it.start + off, end: it.end + off }, partial, self.carry)?;
                if partial { self.check_p6(view, pos, it)?; }
                pos = it.end;
                if let Some(k) = self.crash_after.as_mut() {
                    *k -= 1;
                    if *k == 0 {
                        self.crash(pos);
                        return Ok(true);
                    }
                }
            }
            let ns = out.none_span.unwrap();
            self.check_none(view, pos, ns, out.second, partial)?;
            none_r = Some(ns.0);
            // variant B resumes at the reported position and takes the lexer's extras along
            none_ex = out.extras_end;
            self.carry = none_ex;
        }
        if fin && self.def.stateful {
            self.stats.hit("x1_extras_checked_at_end");
            if none_ex != self.oracle_ex_end {
                fail!("X1", "end", "definition {}: chunked lexing of {} ended with the extras counter at {} but one-shot lexing ends with {}: a callback ran too often or not at all around a buffer end",
                    self.def.name, show_bytes(&self.s[..self.s_eff_len]), none_ex, self.oracle_ex_end);
            }
        }

        let r = none_r.unwrap_or(pos);
        if partial {
            if self.none_points.len() < 6 {
                self.none_points.push((off + r, self.committed.len(), none_ex));
            }
            self.check_p5(view, r)?;
            let pending = vlen - r;
            if pending > 0 || vlen < avail_len {
                self.stats.none_with_pending = true;
                self.stats.hit("probe_none_with_pending_bytes");
                if pending > (1 << 20) { self.stats.hit("probe_none_with_more_than_a_mib_pending"); }
                if self.ref_ok && pending > 0 && self.rf.has_recorded_match(&view[r..]) {
                    self.stats.hit("probe_none_with_recorded_shorter_match");
                }
                if !self.is_str && pending > 0 && std::str::from_utf8(&view[r..]).map_err(|e| e.error_len().is_none()).err() == Some(true) {
                    self.stats.hit("probe_none_inside_code_point_byte_mode");
                }
                if self.rf.has_look && pending > 0 {
                    self.stats.hit("probe_lookaround_definition_pending_at_buffer_end");
                }
            } else {
                self.stats.hit("probe_none_at_root_nothing_pending");
            }
            // the driver remembers where to resume
            self.resume += if self.sc.per_item { pos } else { r };
        }
        Ok(false)
    }

    /// P2: state at `None`
    fn check_none(&mut self, view: &[u8], last_end: usize, ns: (usize, usize), second: Option<(bool, (usize, usize))>, partial: bool) -> Result<(), Violation> {
        let vlen = view.len();
        if ns.0 != ns.1 {
            fail!("P2", "nonempty-span", "definition {}: {} lexer over {} returned None with the non-empty span {}..{}", self.def.name, if partial { "partial" } else { "ordinary" }, show_bytes(view), ns.0, ns.1);
        }
        if ns.0 < last_end || ns.0 > vlen {
            fail!("P2", "position", "definition {}: None reported position {} which is not between the end of the last item ({}) and the buffer end ({})", self.def.name, ns.0, last_end, vlen);
        }
        if self.is_str && !is_char_boundary(view, ns.0) {
            fail!("P2", "boundary", "definition {}: None reported position {} inside a code point of {}", self.def.name, ns.0, show_bytes(view));
        }
        match second {
            Some((true, sp)) if sp == ns => {}
            Some((again_none, sp)) => {
                fail!("P2", "second-call", "definition {}: calling next() again after None over {} gave {} with span {}..{} (first None: {}..{})", self.def.name, show_bytes(view), if again_none { "None" } else { "an item" }, sp.0, sp.1, ns.0, ns.1);
            }
            None => {}
        }
        if !partial && ns.0 != vlen {
            fail!("P4", "end", "definition {}: the finishing ordinary lexer over {} ended at {} instead of the input length {}", self.def.name, show_bytes(view), ns.0, vlen);
        }
        Ok(())
    }

    /// The consumer dies; only the count of committed items and the resume offset survive.
    fn crash(&mut self, pos_in_view: usize) {
        let persisted = self.base + self.resume + pos_in_view;
        if let Some(last) = self.committed.last() {
            if persisted > last.end {
                self.stats.hit("probe_restart_resume_after_skip");
            }
        }
        self.buf = Vec::new();
        self.base = persisted;
        self.resume = 0;
        self.delivered = persisted;
        self.crash_after = None;
        self.stats.hit("fault_fired_restart");
    }

    /// Returns Ok(true) if the consumer crashed during the finishing round (the main loop goes on:
    /// the stream is re-opened at the persisted offset and ends again at the same place).
    fn finish(&mut self, truncated: bool) -> Result<bool, Violation> {
        if truncated {
            // the effective input is what was delivered; everything committed so far must be a prefix of ITS one-shot lexing
            self.s_eff_len = self.delivered;
            self.set_oracle();
            self.compute_ref_ok();
            for (i, it) in self.committed.iter().enumerate() {
                if self.oracle.get(i) != Some(it) {
                    fail!("P1", format!("item={}", item_tag(&it.text)),
                        "definition {}: item #{} {}@{}..{} was committed from a prefix, then the stream ended after {} bytes; one-shot lexing of those bytes ({}) gives {}",
                        self.def.name, i, it.text, it.start, it.end, self.s_eff_len, show_bytes(&self.s[..self.s_eff_len]), fmt_items(&self.oracle));
                }
            }
        }
        if self.lex_round(true)? {
            return Ok(true);
        }
        // P4
        if self.committed != self.oracle {
            fail!("P4", "stream", "definition {}: chunked lexing of {} produced {} but one-shot lexing produces {}",
                self.def.name, show_bytes(&self.s[..self.s_eff_len]), fmt_items(&self.committed), fmt_items(&self.oracle));
        }
        // P3
        let s_eff = &self.s[..self.s_eff_len];
        for &(r, n, ex) in &self.none_points.clone() {
            if r > s_eff.len() { continue; }
            // an ordinary lexer over the whole input, put at the reported position with the extras the partial lexer held there
            let rest = self.def.lex_carry(s_eff, false, false, r, s_eff.len() + 2, ex);
            self.stats.steps += rest.calls as u64;
            if rest.items[..] != self.oracle[n.min(self.oracle.len())..] {
                fail!("P3", "resume", "definition {}: a partial lexer returned None at position {} after {} items{}; lexing {} from there gives {} but the remaining one-shot items are {}",
                    self.def.name, r, n, if self.def.stateful { format!(" with its extras counter at {}", ex) } else { String::new() }, show_bytes(s_eff), fmt_items(&rest.items), fmt_items(&self.oracle[n.min(self.oracle.len())..]));
            }
            if self.def.stateful && rest.extras_end != self.oracle_ex_end {
                fail!("X1", "resume", "definition {}: a partial lexer returned None at position {} with its extras counter at {}; lexing {} from there with those extras ends with the counter at {} but one-shot lexing ends with {}",
                    self.def.name, r, ex, show_bytes(s_eff), rest.extras_end, self.oracle_ex_end);
            }
            self.stats.hit("p3_resume_points_checked");
        }
        Ok(false)
    }

    fn run(&mut self) -> Result<(), Violation> {
        let mut events = self.sc.events.iter();
        let mut guard = 0usize;
        loop {
            guard += 1;
            if guard > 4 * (self.s.len() + self.sc.events.len()) + 16 {
                fail!("L1", "driver-loop", "definition {}: the driver did not terminate", self.def.name);
            }
            let crashed = self.lex_round(false)?;
            if crashed {
                continue;
            }
            loop {
                self.stats.steps += 1;
                let ev = events.next().cloned().unwrap_or(Ev::Read(usize::MAX));
                match ev {
                    Ev::Intr => self.stats.hit("fault_fired_eintr"),
                    Ev::Compact => {
                        if self.resume > 0 {
                            self.buf.drain(..self.resume);
                            self.base += self.resume;
                            self.resume = 0;
                            self.stats.hit("fault_fired_compact");
                        }
                    }
                    Ev::Realloc => {
                        let mut nb = Vec::with_capacity(self.buf.len());
                        nb.extend_from_slice(&self.buf);
                        self.buf = nb;
                        self.stats.hit("fault_fired_realloc");
                    }
                    Ev::Restart(k) => {
                        if k == 0 {
                            self.crash(0);
                        } else {
                            self.crash_after = Some(k);
                        }
                    }
                    Ev::HardErr => {
                        self.stats.hit("fault_fired_hard_read_error");
                        return Ok(());
                    }
                    Ev::Truncate => {
                        // The stream cannot end before a point an earlier incarnation of the consumer (before a
                        // Restart) has already read past: those bytes existed. Re-deliver up to the high-water mark.
                        if self.delivered < self.high_water {
                            let (a, b) = (self.delivered, self.high_water);
                            self.buf.extend_from_slice(&self.s[a..b]);
                            self.delivered = b;
                        }
                        let mut cut = self.delivered;
                        if cut < self.s_eff_len {
                            if self.is_str {
                                while !is_char_boundary(self.s, cut) {
                                    // a cut inside a code point cannot be lexed by a str lexer: deliver the rest of the character first
                                    self.buf.push(self.s[cut]);
                                    cut += 1;
                                }
                                self.delivered = cut;
                                self.high_water = self.high_water.max(cut);
                            }
                            self.stats.hit("fault_fired_truncated_stream");
                            if self.finish(self.delivered < self.s_eff_len)? { break; }
                            return Ok(());
                        }
                        self.stats.hit("reached_eof");
                        if self.finish(false)? { break; }
                        return Ok(());
                    }
                    Ev::Read(n) => {
                        // after a truncation the (re-opened) stream ends where it was cut
                        let rem = self.s_eff_len - self.delivered;
                        if rem == 0 {
                            self.stats.hit("reached_eof");
                            if self.finish(false)? { break; }
                            return Ok(());
                        }
                        let n = n.clamp(1, rem);
                        if n < rem { self.stats.hit("fault_fired_short_read"); }
                        self.buf.extend_from_slice(&self.s[self.delivered..self.delivered + n]);
                        self.delivered += n;
                        self.high_water = self.high_water.max(self.delivered);
                        break;
                    }
                }
            }
        }
    }
}

fn exec(def: &DefInfo, rf: &Ref, sc: &Scenario) -> Outcome_ {
    let is_str = def.utf8;
    if is_str && std::str::from_utf8(&sc.input).is_err() {
        eprintln!("stream-sim: input of str definition {} is not UTF-8", def.name);
        std::process::exit(2);
    }
    let mut d = Driver {
        def, rf, s: &sc.input, sc, is_str,
        oracle: Vec::new(), oracle_ex: Vec::new(), oracle_ex_end: 0, s_eff_len: sc.input.len(), ref_ok: false,
        buf: Vec::new(), base: 0, resume: 0, delivered: 0, high_water: 0, committed: Vec::new(), carry: 0, none_points: Vec::new(), crash_after: None,
        stats: Stats::default(),
    };
    d.stats.hit(["op_handle_untouched_between_items", "op_handle_identity_morph_between_items", "op_handle_continue_on_clone", "op_handle_iterate_through_spanned", "op_handle_clone_of_spanned_iterator"][(sc.ops as usize).min(4)]);
    let r = catch(|| {
        d.set_oracle();
        d.compute_ref_ok();
        d.run()
    });
    let violation = match r {
        Ok(Ok(())) => None,
        Ok(Err(v)) => Some(v),
        Err(p) => Some(Violation { oracle: "PANIC", detail: "panic".into(), what: format!("definition {}: lexing panicked: {}", def.name, p) }),
    };
    Outcome_ { stats: d.stats, violation, committed: d.committed }
}

// ---------------------------------------------------------------------------------------------
// Workload generation
// ---------------------------------------------------------------------------------------------

// besides a few ordinary ones: the byte order mark, and characters at the extremes of the UTF-8 byte classes
const MULTI: &[&str] = &["é", "€", "𝔸", "ж", "ß", "🦀", "\u{2003}", "α", "\u{FEFF}", "\u{FEFF}", "\u{80}", "\u{BF}", "\u{7FF}", "\u{800}", "\u{FFFF}", "\u{10000}", "\u{10FFFF}"];

/// An input with ONE token (or skip) of more than a MiB between ordinary segments, so that a partial lexer whose buffer ends
/// inside it has more than a MiB pending. Only for definitions and shapes known to lex in linear time (an unterminated
/// string of that size makes one-shot lexing itself quadratic: every error restarts the scan): (opener, unit, closer).
fn giant_shape(def: &DefInfo) -> Option<(&'static [u8], &'static [u8], &'static [u8])> {
    Some(match def.name {
        "Kw" => (b"", b"a", b" "),
        "Json" => (b"\"", b"a", b"\""),
        "StrCom" => (b"/*", b"x", b"*/"),
        "SkipHeavy" => (b"x", b" ", b"x"),
        "Lines" => (b"", b"a", b"\n"),
        "Trailer" => (b"__END__", b"z", b""),
        "TrailerStr" => (b"__END__", b"z", b""),
        "LongLit" => (b" ", b"=", b" "),
        "Uni" => (b" ", "\u{e9}".as_bytes(), b" "),
        "BytesHi" => (b"a", b"\x80", b"a"),
        "Ini" => (b"#", b"c", b"\n"),
        "Borrowed" => (b":", b"a", b":"),
        _ => return None,
    })
}

fn gen_giant_input(rng: &mut Rng, def: &DefInfo, shape: (&[u8], &[u8], &[u8])) -> Vec<u8> {
    let mut out: Vec<u8> = Vec::new();
    for _ in 0..rng.below(3) { out.extend_from_slice(*rng.pick(def.frags)); out.push(b' '); }
    out.extend_from_slice(shape.0);
    let total = out.len() + (1 << 20) + rng.range(1, 300_000);
    while out.len() < total { out.extend_from_slice(shape.1); }
    out.extend_from_slice(shape.2);
    for _ in 0..rng.below(4) { out.extend_from_slice(*rng.pick(def.frags)); }
    if def.utf8 { String::from_utf8_lossy(&out).into_owned().into_bytes() } else { out }
}

fn gen_input(rng: &mut Rng, def: &DefInfo, rf: &Ref, max_len: usize) -> Vec<u8> {
    let mut out: Vec<u8> = Vec::new();
    let target = match rng.below(40) {
        0..=3 => rng.range(0, 2),
        4..=22 => rng.range(3, 24.min(max_len)),
        23..=34 => rng.range(12.min(max_len), 48.min(max_len)),
        35..=38 => rng.range(24.min(max_len), max_len),
        // occasionally well beyond the usual length: offsets above 255, many 8-byte batches
        _ => rng.range(max_len, max_len * 12),
    };
    while out.len() < target {
        if (max_len > 512 || target > max_len) && rng.chance(1, 6) {
            // a long run of one fragment: long self-loops, many 8-byte batches
            let f: &[u8] = *rng.pick(def.frags);
            let f = if f.is_empty() { b"a" } else { f };
            let unit = if rng.chance(2, 3) { &f[..1.max(f.iter().position(|b| (b & 0xC0) != 0x80 && *b != f[0]).unwrap_or(f.len()).min(f.len()))] } else { f };
            for _ in 0..rng.range(8, 300) { out.extend_from_slice(unit); }
            continue;
        }
        match rng.below(8) {
            0..=2 => out.extend_from_slice(*rng.pick(def.frags)),
            3..=6 => {
                // random walk on the reference DFA: reaches deep viable states
                let mut s = rf.start;
                let steps = match rng.below(4) { 0 => rng.range(1, 3), 1 | 2 => rng.range(2, 10), _ => rng.range(8, 40) };
                for _ in 0..steps {
                    let good = rf.good_bytes(s);
                    if good.is_empty() { break; }
                    let ascii: Vec<u8> = good.iter().cloned().filter(|b| (0x20..0x7f).contains(b) || *b == b'\n').collect();
                    let b = if !ascii.is_empty() && rng.chance(3, 4) { *rng.pick(&ascii) } else { *rng.pick(&good) };
                    out.push(b);
                    s = {
                        use regex_automata::dfa::Automaton;
                        rf.dfa.next_state(s, b)
                    };
                    if rng.chance(1, 12) { break; }
                }
            }
            _ => {
                if def.utf8 || rng.chance(1, 2) {
                    out.extend_from_slice(rng.pick(MULTI).as_bytes());
                } else {
                    out.push(rng.below(256) as u8);
                }
            }
        }
    }
    if def.utf8 {
        String::from_utf8_lossy(&out).into_owned().into_bytes()
    } else {
        out
    }
}

const FAULT_KINDS: usize = 6; // Intr, Truncate, HardErr, Compact, Realloc, Restart

fn gen_events(rng: &mut Rng, len: usize, single_split: bool) -> Vec<Ev> {
    let mut ev = Vec::new();
    if single_split {
        if len > 0 {
            ev.push(Ev::Read(rng.range(1, len)));
        }
        if rng.chance(1, 6) { ev.push(Ev::Realloc); }
        if rng.chance(1, 8) { ev.push(Ev::Truncate); }
        return ev;
    }
    let mask = rng.below(1 << FAULT_KINDS) & rng.below(1 << FAULT_KINDS) | if rng.chance(1, 3) { rng.below(1 << FAULT_KINDS) } else { 0 };
    let on = |k: usize| mask & (1 << k) != 0;
    let mode = rng.below(5);
    let mut remaining = len as isize;
    let mut reads = 0;
    let end_fault_at = if (on(1) || on(2)) && rng.chance(1, 3) { Some(rng.below(len + 1)) } else { None };
    let mut delivered = 0usize;
    while remaining > 0 && reads < 4 * len + 8 {
        if on(0) && rng.chance(1, 8) { ev.push(Ev::Intr); }
        if on(3) && rng.chance(1, 4) { ev.push(Ev::Compact); }
        if on(4) && rng.chance(1, 6) { ev.push(Ev::Realloc); }
        if on(5) && rng.chance(1, 10) { ev.push(Ev::Restart(rng.below(4))); }
        if let Some(at) = end_fault_at {
            if delivered >= at {
                ev.push(if on(1) && (!on(2) || rng.chance(2, 3)) { Ev::Truncate } else { Ev::HardErr });
                return ev;
            }
        }
        let n = match mode {
            0 => 1,
            1 => 1 + rng.below(4).min(rng.below(4)),
            2 => *rng.pick(&[7usize, 8, 9, 15, 16, 17]),
            3 => rng.range(16, 64),
            _ => rng.range(1, (len / 2).max(1)),
        };
        ev.push(Ev::Read(n));
        delivered += n;
        remaining -= n as isize;
        reads += 1;
    }
    ev
}

struct World {
    defs: Vec<(&'static DefInfo, Ref)>,
}

fn build_world(only: Option<&str>) -> World {
    let mut defs = Vec::new();
    for d in DEFS.iter() {
        if let Some(o) = only {
            if d.name != o { continue; }
        }
        defs.push((d, Ref::new(d)));
    }
    World { defs }
}

const RUNS_PER_INPUT: u64 = 12;

fn scenario_for(world: &World, seed: u64, index: u64, max_len: usize) -> (usize, Scenario) {
    let nd = world.defs.len() as u64;
    let di = (index % nd) as usize;
    let j = index / nd;
    let input_id = j / RUNS_PER_INPUT;
    let variant = j % RUNS_PER_INPUT;
    let (def, rf) = &world.defs[di];
    let mut irng = Rng::for_run(seed, &format!("stream-input/{}", def.name), input_id);
    // one input in 800 holds a run of more than a MiB (thresholds far above the usual sizes); such inputs are fed in a few
    // large pieces only (every fill re-lexes what is pending)
    let shape = if input_id % 800 == 399 { giant_shape(def) } else { None };
    let giant = shape.is_some();
    let input = match shape { Some(sh) => gen_giant_input(&mut irng, def, sh), None => gen_input(&mut irng, def, rf, max_len) };
    let mut rng = Rng::for_run(seed, "stream-sim", index);
    let events = if giant {
        let n = input.len();
        let mut ev = Vec::new();
        let mut left = n;
        for _ in 0..rng.range(1, 3) {
            if left <= 1 { break; }
            let k = match rng.below(3) { 0 => rng.range(1, left.min(64)), 1 => rng.range(left.saturating_sub(64).max(1), left), _ => rng.range(1, left) };
            ev.push(Ev::Read(k));
            left -= k.min(left);
        }
        ev
    } else {
        gen_events(&mut rng, input.len(), variant < 5)
    };
    // (a giant input is lexed by the per-fill consumer only: the per-item one re-validates the rest of the buffer for every
    // item, which is quadratic when the run turns out to be a million one-byte items)
    let per_item = rng.chance(1, 2) && !giant;
    let exact_alloc = rng.chance(1, 2);
    let with_extras = rng.chance(1, 3);
    // handle operations between items: mostly none, otherwise one of the four kinds
    let ops = if rng.chance(2, 3) { corpus::OPS_NONE } else { 1 + rng.below(4) as u8 };
    let sc = Scenario { def: def.name.to_string(), input, per_item, exact_alloc, with_extras, ops, events };
    (di, sc)
}

fn signature(sc: &Scenario, v: &Violation) -> String {
    format!("C07/{}/{}/{}", v.oracle, sc.def, v.detail)
}

fn replay_json(sc: &Scenario, v: &Violation, committed: &[Item], seed: u64, index: u64, minimised: bool) -> Value {
    json!({
        "format": 1, "property": "C07", "engine": "stream-sim", "oracle": v.oracle,
        "verif_seed": seed, "run_index": index, "minimised": minimised, "build": build_info!(),
        "scenario": sc.to_json(),
        "definition_source": corpus::def_by_name(&sc.def).map(|d| d.source).unwrap_or(""),
        "committed_before_violation": fmt_items(committed),
        "violation": {"what": v.what, "signature": signature(sc, v)},
    })
}

fn run_one(world: &World, seed: u64, index: u64, max_len: usize, want_sample: bool) -> RunReport {
    let (di, mut sc) = scenario_for(world, seed, index, max_len);
    let (def, rf) = &world.defs[di];
    let variant = (index / world.defs.len() as u64) % RUNS_PER_INPUT;
    if variant == 0 && sc.input.len() <= 64 {
        // split sweep: the first run of every input tries EVERY split position as a two-chunk schedule
        // (the property's own quantifier "input S and split point k"); reported as one evaluation
        let mut merged = Stats::default();
        let mut last = None;
        for k in 1..=sc.input.len().max(1) {
            sc.events = vec![Ev::Read(k)];
            let out = exec(def, rf, &sc);
            for (key, v) in &out.stats.c { *merged.c.entry(key).or_insert(0) += v; }
            merged.steps += out.stats.steps;
            merged.none_with_pending |= out.stats.none_with_pending;
            let failed = out.violation.is_some();
            last = Some(out);
            if failed { break; }
        }
        let mut out = last.unwrap();
        merged.hit("split_sweeps");
        out.stats = merged;
        return finish_report(&sc, out, seed, index, want_sample);
    }
    let out = exec(def, rf, &sc);
    finish_report(&sc, out, seed, index, want_sample)
}

fn finish_report(sc: &Scenario, out: Outcome_, seed: u64, index: u64, want_sample: bool) -> RunReport {
    let sc = sc.clone();
    let counters: Vec<(&'static str, u64)> = out.stats.c.iter().map(|(k, v)| (*k, *v)).collect();
    let sample = if want_sample {
        Some(json!({"run_index": index, "scenario": sc.to_json(), "committed": fmt_items(&out.committed), "violation": out.violation.as_ref().map(|v| v.what.clone())}))
    } else { None };
    let failure = out.violation.as_ref().map(|v| Failure {
        class: format!("{}/{}/{}", v.oracle, sc.def, v.detail),
        what: v.what.clone(),
        replay: replay_json(&sc, v, &out.committed, seed, index, false),
    });
    RunReport { trace_hash: sc.hash(), nontrivial: out.stats.none_with_pending, steps: out.stats.steps, counters, sample, failure }
}

// ---------------------------------------------------------------------------------------------
// Minimisation
// ---------------------------------------------------------------------------------------------

fn minimise(world: &World, sc: &Scenario, v: &Violation) -> (Scenario, Violation, Vec<Item>) {
    let (def, rf) = world.defs.iter().find(|(d, _)| d.name == sc.def).map(|(d, r)| (*d, r)).unwrap();
    let same = |w: &Violation| w.oracle == v.oracle;
    let fails = |t: &Scenario| matches!(exec(def, rf, t).violation, Some(ref w) if same(w));
    let mut best = sc.clone();
    let mut budget: u32 = 3000;
    for _ in 0..4 {
        let before = (best.events.len(), best.input.len());
        let base = best.clone();
        best.events = ddmin(&base.events, &mut budget, |cand| fails(&Scenario { events: cand.to_vec(), ..base.clone() }));
        // shorten the input: drop bytes from the end, the front and the middle
        let mut changed = true;
        while changed && budget > 0 {
            changed = false;
            let n = best.input.len();
            'outer: for width in [8usize, 4, 2, 1] {
                if width > n { continue; }
                let mut starts: Vec<usize> = vec![n - width, 0];
                starts.extend((1..n.saturating_sub(width)).rev());
                for st in starts {
                    if st + width > best.input.len() { continue; }
                    let mut cand = best.input.clone();
                    cand.drain(st..st + width);
                    if def.utf8 && std::str::from_utf8(&cand).is_err() { continue; }
                    if budget == 0 { break 'outer; }
                    budget -= 1;
                    let t = Scenario { input: cand, ..best.clone() };
                    if fails(&t) {
                        best = t;
                        changed = true;
                        break 'outer;
                    }
                }
            }
        }
        // simpler configuration
        for k in 0..2 {
            let mut t = best.clone();
            if k == 0 { t.exact_alloc = false; } else { t.per_item = false; }
            if budget > 0 { budget -= 1; if fails(&t) { best = t.clone(); } }
            let mut t = best.clone();
            t.with_extras = false;
            if budget > 0 { budget -= 1; if fails(&t) { best = t; } }
            let mut t = best.clone();
            t.ops = corpus::OPS_NONE;
            if budget > 0 { budget -= 1; if fails(&t) { best = t; } }
        }
        // smaller read sizes are not simpler; but merge: Read(a),Read(b) -> Read(a+b)
        let mut i = 0;
        while i + 1 < best.events.len() && budget > 0 {
            if let (Ev::Read(a), Ev::Read(b)) = (&best.events[i], &best.events[i + 1]) {
                let mut t = best.clone();
                t.events[i] = Ev::Read(a.saturating_add(*b));
                t.events.remove(i + 1);
                budget -= 1;
                if fails(&t) { best = t; continue; }
            }
            i += 1;
        }
        if (best.events.len(), best.input.len()) == before { break; }
    }
    let out = exec(def, rf, &best);
    let w = out.violation.unwrap_or_else(|| v.clone());
    (best, w, out.committed)
}

fn main() {
    install_quiet_panic_hook();
    let args = Args::parse();
    let out_path = args.get("out").map(|s| s.to_string());

    if let Some(path) = args.get("replay") {
        let v = read_json(path);
        let sc = match v.get("scenario").and_then(Scenario::from_json) {
            Some(s) => s,
            None => { eprintln!("stream-sim: {path} is not a usable replay file"); std::process::exit(2) }
        };
        let world = build_world(Some(&sc.def));
        if world.defs.is_empty() { eprintln!("stream-sim: unknown definition {}", sc.def); std::process::exit(2); }
        let (def, rf) = &world.defs[0];
        let out = exec(def, rf, &sc);
        let result = match &out.violation {
            Some(w) => json!({"reproduced": true, "signature": signature(&sc, w), "what": w.what, "oracle": w.oracle, "build": build_info!()}),
            None => json!({"reproduced": false, "build": build_info!(), "committed": fmt_items(&out.committed)}),
        };
        println!("{}", result);
        if let Some(p) = out_path { write_json(&p, &result); }
        std::process::exit(if out.violation.is_some() { 1 } else { 0 });
    }

    let seed = args.num("seed", DEFAULT_SEED);
    let runs = args.num("runs", 10_000);
    let workers = args.num("workers", 16) as usize;
    let max_len = args.num("max-len", 96) as usize;
    REF_LIMIT.store(args.num("ref-limit", 600) as usize, std::sync::atomic::Ordering::Relaxed);
    let replay_dir = args.get("replay-dir").unwrap_or("/verif/replays").to_string();
    let tag = args.get("tag").unwrap_or("build").to_string();
    let world = build_world(args.get("def"));

    let batch = run_batch(runs, workers, (runs / 4).max(1), |i, s| run_one(&world, seed, i, max_len, s));

    let mut failures_json = Vec::new();
    let mut unstable = 0u64;
    let mut reps: Vec<(&String, &(u64, Failure))> = batch.failures.iter().collect();
    reps.sort_by_key(|(_, (i, _))| *i);
    for (class, (index, fail)) in reps.into_iter().take(12) {
        let sc = Scenario::from_json(fail.replay.get("scenario").unwrap()).unwrap();
        let (def, rf) = world.defs.iter().find(|(d, _)| d.name == sc.def).map(|(d, r)| (*d, r)).unwrap();
        let first = exec(def, rf, &sc);
        let Some(v) = first.violation else {
            // not replayable (e.g. it depended on memory read through corrupted lexer state): not reported; the runner
            // treats a batch whose only failures are unstable as a harness error
            eprintln!("stream-sim: run {index} failed ({class}) but its recorded events do not reproduce it: dropped");
            unstable += 1;
            continue;
        };
        let (msc, mv, committed) = minimise(&world, &sc, &v);
        let rj = replay_json(&msc, &mv, &committed, seed, *index, true);
        let path = format!("{}/C07-{}-{}-{}.json", replay_dir, tag, seed, index);
        write_json(&path, &rj);
        failures_json.push(json!({
            "class": class, "run_index": index, "signature": signature(&msc, &mv), "what": mv.what, "replay": path,
            "events_before": sc.events.len(), "events_after": msc.events.len(), "input_len_before": sc.input.len(), "input_len_after": msc.input.len(),
        }));
    }

    let mut result = batch.to_json();
    result["engine"] = json!("stream-sim");
    result["seed"] = json!(seed);
    result["build"] = build_info!();
    result["tag"] = json!(tag);
    result["definitions"] = json!(world.defs.iter().map(|(d, r)| json!({"name": d.name, "utf8": d.utf8, "stateful": d.stateful, "patterns": d.pats.len(), "lookaround": r.has_look, "reference_dfa_states": r.states})).collect::<Vec<_>>());
    result["failures"] = json!(failures_json);
    result["failure_classes"] = json!(batch.failures.len());
    result["unstable_failure_classes"] = json!(unstable);
    match out_path {
        Some(p) => write_json(&p, &result),
        None => println!("{:#}", result),
    }
}
