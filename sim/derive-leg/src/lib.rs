pub use logos::Logos;
