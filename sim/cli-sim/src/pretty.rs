//! The stub formatter's "formatting": a deterministic, token-preserving-enough transformation that turns the
//! one-line token dump into many lines, so that line-ending handling is exercised. Shared by the rustfmt stub and the
//! harness (which needs to know what a healthy `--format` run writes).
pub fn pretty(input: &str) -> String {
    let mut out = String::with_capacity(input.len() + input.len() / 16);
    let mut chars = input.chars().peekable();
    while let Some(c) = chars.next() {
        out.push(c);
        if (c == ';' || c == '{' || c == '}') && chars.peek() == Some(&' ') {
            chars.next();
            out.push('\n');
        }
    }
    if !out.ends_with('\n') {
        out.push('\n');
    }
    out
}
