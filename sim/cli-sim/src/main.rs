//! cli-sim: deterministic simulation of the logos-cli process — property C17 (and the process
//! leg of C16). See DESIGN.md section 4.5.
//!
//! The REAL logos-cli binary built from /repo runs as a child process in a private directory,
//! under the LD_PRELOAD shim (hash keys, EINTR, short transfers, EIO, ENOSPC, EACCES on its file
//! I/O, operation log) and with a stub `rustfmt` on PATH. One run = one history of write / check /
//! print invocations interleaved with environment actions on the output file (line-ending
//! conversion, truncation, deletion, ...) and edits of the input enum.

mod pretty;

use defsrc::{decorate, normalise_enum, reference_strip, Definition};
use quote::ToTokens;
use simcore::*;
use std::collections::BTreeMap;
use std::path::{Path, PathBuf};
use std::process::{Command, Stdio};
use std::sync::Mutex;

// The in-process reference `generate()` runs under fixed hash keys on its own thread, so that the
// harness' own verdicts never depend on the kernel's randomness (exact replay even when the code
// generator under test has become seed-dependent).
simcore::define_hash_key_seam!();

fn reference_generate(source: &str) -> Option<String> {
    reference_generate_with(source, [0x42; 16])
}

fn reference_generate_with(source: &str, keys: [u8; 16]) -> Option<String> {
    let source = source.to_string();
    with_hash_keys(keys, move || {
        let ts: proc_macro2::TokenStream = source.parse().ok()?;
        catch(|| logos_codegen::generate(ts).to_string()).ok()
    })
}

// ---------------------------------------------------------------------------------------------
// Steps
// ---------------------------------------------------------------------------------------------

#[derive(Clone, Debug, PartialEq)]
pub struct Plan {
    pub hash_seed: String,
    /// shim rules, e.g. `write:out.rs:0:ENOSPC`
    pub rules: Vec<String>,
    /// pass | fail | nonutf8 | missing | killed | killedpartial | real (the real rustfmt, thorough tier only)
    pub rustfmt: String,
}

#[derive(Clone, Debug, PartialEq)]
pub enum Mut {
    ToCrlf,
    ToLf,
    AddFinalNewline,
    RemoveFinalNewline,
    /// replace the alphanumeric byte at (pos mod number of alphanumeric bytes) by another one
    FlipAlnum(usize),
    /// keep only the first k bytes (a torn earlier write)
    Truncate(usize),
    Delete,
    Empty,
    AppendGarbage,
    /// the file gets the output for a different enum
    ReplaceBy(String),
    /// the file's content is prefixed with bytes that are not UTF-8
    NonUtf8,
    /// a directory sits where the file should be
    Directory,
    /// the content gets a UTF-8 byte order mark in front (an editor "saved with BOM")
    PrependBom,
    /// a blank and a word are inserted in front of / in the middle of the content (arg selects where)
    InsertText(usize),
    /// bytes that are not UTF-8 follow the (complete) content: arg 0 directly, 1 on a new line followed by more text lines,
    /// 2 on a new line at the very end (a damaged or concatenated artefact: everything a line-by-line reader sees before
    /// its first read error is right)
    NonUtf8Tail(usize),
    /// bytes that are not UTF-8 are inserted at a char boundary inside the content (arg selects where)
    NonUtf8Inside(usize),
    /// the file loses its write permission bits (`chmod a-w`: a checked-out file under Perforce, a Nix or Bazel output, a
    /// read-only CI mount); its content is untouched, so a check is still decided by the content alone
    ReadOnly,
}

#[derive(Clone, Debug, PartialEq)]
pub enum Step {
    Write { fmt: bool, plan: Plan },
    Check { fmt: bool, plan: Plan },
    Print { fmt: bool, plan: Plan },
    Edit { source: String },
    Mutate(Mut),
    /// the input file becomes unusable: "NonUtf8" | "Missing" | "NotRust" | "Empty" (until the next Edit)
    BreakInput(String),
}

#[derive(Clone, Debug)]
pub struct Scenario {
    pub def_id: String,
    pub source: String,
    /// how the command line is spelled: 0 `in.rs --output out.rs ..`, 1 options first, 2 `-o out.rs`, 3 `--output=out.rs`,
    /// 4 absolute paths, 5 output in a subdirectory (`sub/out.rs`)
    pub arg_style: u8,
    pub steps: Vec<Step>,
}

fn plan_json(p: &Plan) -> Value {
    json!({"hash_seed": p.hash_seed, "rules": p.rules, "rustfmt": p.rustfmt})
}
fn plan_from(v: &Value) -> Option<Plan> {
    Some(Plan {
        hash_seed: v.get("hash_seed")?.as_str()?.to_string(),
        rules: v.get("rules")?.as_array()?.iter().map(|r| r.as_str().map(|s| s.to_string())).collect::<Option<Vec<_>>>()?,
        rustfmt: v.get("rustfmt")?.as_str()?.to_string(),
    })
}

impl Step {
    fn to_json(&self) -> Value {
        match self {
            Step::Write { fmt, plan } => json!({"op": "Write", "format": fmt, "plan": plan_json(plan)}),
            Step::Check { fmt, plan } => json!({"op": "Check", "format": fmt, "plan": plan_json(plan)}),
            Step::Print { fmt, plan } => json!({"op": "Print", "format": fmt, "plan": plan_json(plan)}),
            Step::Edit { source } => json!({"op": "Edit", "source": source}),
            Step::Mutate(m) => match m {
                Mut::FlipAlnum(k) => json!({"op": "Mutate", "kind": "FlipAlnum", "arg": k}),
                Mut::Truncate(k) => json!({"op": "Mutate", "kind": "Truncate", "arg": k}),
                Mut::InsertText(k) => json!({"op": "Mutate", "kind": "InsertText", "arg": k}),
                Mut::NonUtf8Tail(k) => json!({"op": "Mutate", "kind": "NonUtf8Tail", "arg": k}),
                Mut::NonUtf8Inside(k) => json!({"op": "Mutate", "kind": "NonUtf8Inside", "arg": k}),
                Mut::ReplaceBy(s) => json!({"op": "Mutate", "kind": "ReplaceBy", "source": s}),
                other => json!({"op": "Mutate", "kind": format!("{:?}", other)}),
            },
            Step::BreakInput(k) => json!({"op": "BreakInput", "kind": k}),
        }
    }
    fn from_json(v: &Value) -> Option<Step> {
        let fmt = v.get("format").and_then(|f| f.as_bool()).unwrap_or(false);
        Some(match v.get("op")?.as_str()? {
            "Write" => Step::Write { fmt, plan: plan_from(v.get("plan")?)? },
            "Check" => Step::Check { fmt, plan: plan_from(v.get("plan")?)? },
            "Print" => Step::Print { fmt, plan: plan_from(v.get("plan")?)? },
            "Edit" => Step::Edit { source: v.get("source")?.as_str()?.to_string() },
            "Mutate" => Step::Mutate(match v.get("kind")?.as_str()? {
                "ToCrlf" => Mut::ToCrlf,
                "ToLf" => Mut::ToLf,
                "AddFinalNewline" => Mut::AddFinalNewline,
                "RemoveFinalNewline" => Mut::RemoveFinalNewline,
                "FlipAlnum" => Mut::FlipAlnum(v.get("arg")?.as_u64()? as usize),
                "Truncate" => Mut::Truncate(v.get("arg")?.as_u64()? as usize),
                "Delete" => Mut::Delete,
                "Empty" => Mut::Empty,
                "AppendGarbage" => Mut::AppendGarbage,
                "ReplaceBy" => Mut::ReplaceBy(v.get("source")?.as_str()?.to_string()),
                "NonUtf8" => Mut::NonUtf8,
                "Directory" => Mut::Directory,
                "PrependBom" => Mut::PrependBom,
                "InsertText" => Mut::InsertText(v.get("arg")?.as_u64()? as usize),
                "NonUtf8Tail" => Mut::NonUtf8Tail(v.get("arg")?.as_u64()? as usize),
                "NonUtf8Inside" => Mut::NonUtf8Inside(v.get("arg")?.as_u64()? as usize),
                "ReadOnly" => Mut::ReadOnly,
                _ => return None,
            }),
            "BreakInput" => Step::BreakInput(v.get("kind")?.as_str()?.to_string()),
            _ => return None,
        })
    }
}

impl Scenario {
    fn to_json(&self) -> Value {
        json!({"definition_id": self.def_id, "enum_source": self.source, "arg_style": self.arg_style, "steps": self.steps.iter().map(|s| s.to_json()).collect::<Vec<_>>()})
    }
    fn from_json(v: &Value) -> Option<Scenario> {
        Some(Scenario {
            def_id: v.get("definition_id")?.as_str()?.to_string(),
            source: v.get("enum_source")?.as_str()?.to_string(),
            arg_style: v.get("arg_style").and_then(|a| a.as_u64()).unwrap_or(0) as u8,
            steps: v.get("steps")?.as_array()?.iter().map(Step::from_json).collect::<Option<Vec<_>>>()?,
        })
    }
    fn hash(&self) -> u64 {
        fnv1a(self.to_json().to_string().as_bytes())
    }
}

#[derive(Clone, Debug)]
pub struct Violation {
    pub oracle: &'static str,
    pub step: usize,
    pub what: String,
}

#[derive(Default, Clone, Debug)]
pub struct Stats {
    pub c: BTreeMap<&'static str, u64>,
    pub invocations: u64,
    pub check_after_mutation_or_hard_fault: bool,
}
impl Stats {
    fn hit(&mut self, k: &'static str) {
        *self.c.entry(k).or_insert(0) += 1;
    }
}

// ---------------------------------------------------------------------------------------------
// World: binaries, directories, memoised reference outputs
// ---------------------------------------------------------------------------------------------

pub struct World {
    /// K5 (content) is part of C17 only; the process leg of C16 compares outputs across hash seeds
    check_content: bool,
    /// enum texts for which K5-impl could not be decided because generate() is itself seed-dependent
    undecidable: std::sync::atomic::AtomicU64,
    cli: PathBuf,
    shim: PathBuf,
    stub_dir: PathBuf,
    empty_dir: PathBuf,
    /// directory holding (a link to) the real rustfmt, if one was given (thorough tier)
    real_dir: Option<PathBuf>,
    /// what the real rustfmt makes of a text (None: it refuses it), memoised
    real_fmt: Mutex<BTreeMap<u64, Option<String>>>,
    simfs: PathBuf,
    /// fnv(enum source) -> fault-free stdout of `logos-cli in.rs` (None: the CLI failed without any fault)
    expected: Mutex<BTreeMap<u64, Option<String>>>,
    /// fnv(enum source) -> content verdict (K5), computed once
    content: Mutex<BTreeMap<u64, Option<(&'static str, String)>>>,
}

struct Invocation {
    code: i32,
    stdout: Vec<u8>,
    stderr: String,
    log: Vec<String>,
}

const FIXED_SEED: &str = "000102030405060708090a0b0c0d0e0f";

impl World {
    fn invoke(&self, dir: &Path, args: &[&str], plan: &Plan) -> Invocation {
        let logp = dir.join("shim.log");
        let _ = std::fs::remove_file(&logp);
        let mut cmd = Command::new(&self.cli);
        cmd.current_dir(dir).args(args).env_clear();
        let path_dir: &Path = match plan.rustfmt.as_str() {
            "missing" => &self.empty_dir,
            "real" => self.real_dir.as_deref().unwrap_or(&self.stub_dir),
            _ => &self.stub_dir,
        };
        cmd.env("PATH", path_dir);
        cmd.env("LD_PRELOAD", &self.shim);
        cmd.env("VERIF_TRACK", dir.as_os_str());
        cmd.env("VERIF_SHIM_LOG", &logp);
        cmd.env("VERIF_HASH_SEED", &plan.hash_seed);
        // the clock of the invocation is a function of its hash-seed draw: the real clock, or one that jumps 1 ms / 1 min with
        // every read (a machine that is arbitrarily slow); nothing logos-cli writes may depend on it
        match plan.hash_seed.as_bytes().last() {
            Some(b'0'..=b'3') => { cmd.env("VERIF_CLOCK_STEP_NS", "1000000"); }
            Some(b'4' | b'5') => { cmd.env("VERIF_CLOCK_STEP_NS", "60000000000"); }
            _ => {}
        }
        // environment noise, a function of the hash-seed draw too: variables a build tool or a user's shell may or may not set;
        // nothing logos-cli writes may depend on them
        {
            let h = plan.hash_seed.as_bytes();
            let pick = |i: usize, n: usize| h.get(i).map(|b| (*b as usize) % n).unwrap_or(0);
            cmd.env("HOME", ["/root", "/home/u", "/nonexistent", "/tmp/h"][pick(0, 4)]);
            cmd.env("USER", ["root", "u", "builder"][pick(1, 3)]);
            cmd.env("LANG", ["C", "en_US.UTF-8", "de_DE.UTF-8", "tr_TR.UTF-8"][pick(2, 4)]);
            cmd.env("LC_ALL", ["C", "en_US.UTF-8", "tr_TR.UTF-8"][pick(3, 3)]);
            cmd.env("TZ", ["UTC", "Asia/Tokyo", "America/Los_Angeles"][pick(4, 3)]);
            if pick(5, 2) == 1 { cmd.env("CARGO_PKG_NAME", "some-crate").env("CARGO_MANIFEST_DIR", "/work/some-crate").env("OUT_DIR", "/work/target/out"); }
            if pick(6, 2) == 1 { cmd.env("SOURCE_DATE_EPOCH", "1700000000"); }
            if pick(7, 3) == 1 { cmd.env("RUST_BACKTRACE", "1"); }
            if pick(8, 3) == 1 { cmd.env("NO_COLOR", "1").env("TERM", "dumb"); } else { cmd.env("TERM", "xterm-256color"); }
            if pick(9, 4) == 1 { cmd.env("LOGOS_DEBUG", "1").env("RUST_LOG", "debug"); }
        }
        cmd.env("VERIF_RUSTFMT_MODE", &plan.rustfmt);
        if !plan.rules.is_empty() {
            cmd.env("VERIF_PLAN", plan.rules.join(","));
        }
        cmd.stdin(Stdio::null()).stdout(Stdio::piped()).stderr(Stdio::piped());
        let out = match cmd.output() {
            Ok(o) => o,
            Err(e) => {
                eprintln!("cli-sim: cannot run {}: {e}", self.cli.display());
                std::process::exit(2);
            }
        };
        let log = std::fs::read_to_string(&logp).unwrap_or_default().lines().map(|s| s.to_string()).collect();
        Invocation { code: out.status.code().unwrap_or(-1), stdout: out.stdout, stderr: String::from_utf8_lossy(&out.stderr).into_owned(), log }
    }

    /// What the CLI prints for `source` on a healthy system with fixed hash keys ("that output").
    fn expected_output(&self, source: &str) -> Option<String> {
        let key = fnv1a(source.as_bytes());
        if let Some(v) = self.expected.lock().unwrap().get(&key) {
            return v.clone();
        }
        // unique per call: two workers may need the same enum text at the same time
        static REF_SERIAL: std::sync::atomic::AtomicU64 = std::sync::atomic::AtomicU64::new(0);
        let serial = REF_SERIAL.fetch_add(1, std::sync::atomic::Ordering::Relaxed);
        let dir = self.simfs.join(format!("ref-{}-{:016x}-{}", std::process::id(), key, serial));
        let _ = std::fs::create_dir_all(&dir);
        std::fs::write(dir.join("in.rs"), source).expect("write in.rs");
        let inv = self.invoke(&dir, &["in.rs"], &Plan { hash_seed: FIXED_SEED.into(), rules: vec![], rustfmt: "pass".into() });
        let _ = std::fs::remove_dir_all(&dir);
        let v = if inv.code == 0 {
            let mut s = String::from_utf8_lossy(&inv.stdout).into_owned();
            if s.ends_with('\n') {
                s.pop(); // println!
            }
            Some(s)
        } else {
            None
        };
        self.expected.lock().unwrap().insert(key, v.clone());
        v
    }

    /// What a healthy `--format` run produces from `text` with the formatter this plan selects; None if the real
    /// rustfmt refuses the text (then nothing can be said about such a step).
    fn formatted(&self, text: &str, plan: &Plan) -> Option<String> {
        if plan.rustfmt == "crlf" {
            return Some(pretty::pretty(text).replace('\n', "\r\n"));
        }
        if plan.rustfmt != "real" || self.real_dir.is_none() {
            return Some(pretty::pretty(text));
        }
        let key = fnv1a(text.as_bytes());
        if let Some(v) = self.real_fmt.lock().unwrap().get(&key) {
            return v.clone();
        }
        let exe = self.real_dir.as_ref().unwrap().join("rustfmt");
        let v = (|| {
            use std::io::Write;
            let mut child = Command::new(exe).stdin(Stdio::piped()).stdout(Stdio::piped()).stderr(Stdio::null()).spawn().ok()?;
            let mut stdin = child.stdin.take()?;
            let data = text.as_bytes().to_vec();
            let writer = std::thread::spawn(move || { let _ = stdin.write_all(&data); });
            let out = child.wait_with_output().ok()?;
            let _ = writer.join();
            if !out.status.success() { return None; }
            String::from_utf8(out.stdout).ok()
        })();
        self.real_fmt.lock().unwrap().insert(key, v.clone());
        v
    }

    /// K5: the CLI's output for `source` is (reference stripped enum) ++ (implementation generate() gives), and valid Rust.
    fn content_verdict(&self, source: &str) -> Option<(&'static str, String)> {
        if !self.check_content {
            return None;
        }
        let key = fnv1a(source.as_bytes());
        if let Some(v) = self.content.lock().unwrap().get(&key) {
            return v.clone();
        }
        let verdict = (|| {
            let Some(out) = self.expected_output(source) else {
                return Some(("K5-fails", "logos-cli exits with an error on this enum without any fault injected".to_string()));
            };
            let file = match syn::parse_file(&out) {
                Ok(f) => f,
                Err(e) => return Some(("K5-parse", format!("the output is not valid Rust: {e}; output starts with: {}", out.chars().take(300).collect::<String>()))),
            };
            let Some(reference) = reference_strip(source) else { return None };
            let want_enum = normalise_enum(reference);
            let mut items = file.items.into_iter();
            let got_enum = match items.next() {
                Some(syn::Item::Enum(e)) => normalise_enum(e),
                other => return Some(("K5-enum", format!("the first item of the output is not the enum: {}", other.map(|i| i.to_token_stream().to_string()).unwrap_or_default().chars().take(200).collect::<String>()))),
            };
            if got_enum != want_enum {
                let at = got_enum.bytes().zip(want_enum.bytes()).position(|(a, b)| a != b).unwrap_or(got_enum.len().min(want_enum.len()));
                let lo = at.saturating_sub(40);
                let cut = |s: &str| { let mut a = lo.min(s.len()); while !s.is_char_boundary(a) { a -= 1; } let mut b = (at + 80).min(s.len()); while !s.is_char_boundary(b) { b += 1; } s[a..b].to_string() };
                return Some(("K5-enum", format!("stripped enum differs from the input enum minus logos/token/regex attributes and the Logos derive: output has `{}` where `{}` is expected", cut(&got_enum), cut(&want_enum))));
            }
            let rest: String = items.map(|i| i.to_token_stream().to_string()).collect::<Vec<_>>().join(" ");
            let gen = reference_generate(source)?;
            let want_rest: String = match syn::parse_file(&gen) {
                Ok(f) => f.items.into_iter().map(|i| i.to_token_stream().to_string()).collect::<Vec<_>>().join(" "),
                Err(e) => return Some(("K5-parse", format!("generate() output is not valid Rust: {e}"))),
            };
            if rest != want_rest {
                // "The implementation the derive would generate" is only well defined while code generation is
                // deterministic. If generate() itself varies with the hash keys, that is a C16 violation (reported
                // by the C16 check); the CLI printing one of the possible outputs does not break C17.
                let variants: Vec<Option<String>> = (1u8..=6).map(|k| reference_generate_with(source, [k.wrapping_mul(37); 16])).collect();
                if variants.iter().any(|v| v.as_deref() != Some(gen.as_str())) {
                    self.undecidable.fetch_add(1, std::sync::atomic::Ordering::Relaxed);
                    return None;
                }
                return Some(("K5-impl", "the implementation part of the output differs from what generate() produces for the same enum".to_string()));
            }
            None
        })();
        self.content.lock().unwrap().insert(key, verdict.clone());
        verdict
    }
}

/// "ignoring line endings": equal sequences of lines, a line ending being `\n` or `\r\n`, the final one optional.
fn lines_of(b: &[u8]) -> Vec<&[u8]> {
    let mut v: Vec<&[u8]> = Vec::new();
    let mut rest = b;
    while !rest.is_empty() {
        match rest.iter().position(|&c| c == b'\n') {
            Some(i) => {
                let line = &rest[..i];
                v.push(line.strip_suffix(b"\r").unwrap_or(line));
                rest = &rest[i + 1..];
            }
            None => {
                v.push(rest);
                rest = &[];
            }
        }
    }
    v
}
fn model_equal(file: &[u8], expected: &str) -> bool {
    lines_of(file) == lines_of(expected.as_bytes())
}

fn hard_rules(plan: &Plan, fmt: bool) -> bool {
    plan.rules.iter().any(|r| r.contains(":EIO") || r.contains(":ENOSPC") || r.contains(":EACCES")) || (fmt && plan.rustfmt != "pass" && plan.rustfmt != "real" && plan.rustfmt != "crlf")
}

fn count_faults(log: &[String], stats: &mut Stats) {
    for l in log {
        if l.contains("FAULT EINTR") { stats.hit(if l.starts_with("read") { "fault_fired_eintr_on_read" } else { "fault_fired_eintr_on_write" }); }
        if l.contains("FAULT EIO") { stats.hit(if l.starts_with("read") { "fault_fired_eio_on_read" } else { "fault_fired_eio_on_write" }); }
        if l.contains("FAULT ENOSPC") { stats.hit("fault_fired_enospc_on_write"); }
        if l.contains("FAULT EACCES") { stats.hit("fault_fired_eacces_on_open"); }
        if l.contains(" SHORT ") { stats.hit(if l.starts_with("read") { "fault_fired_short_read" } else { "fault_fired_short_write" }); }
        if l.starts_with("getrandom served") { stats.hit("hash_keys_served_by_the_seam"); }
        if l.starts_with("clock_gettime served") { stats.hit("hash_clock_reads_served_by_the_seam"); }
    }
}

fn touched_out(log: &[String]) -> Option<String> {
    log.iter()
        .find(|l| {
            l.starts_with("openw out.rs") || l.starts_with("write out.rs") || l.starts_with("unlink out.rs") || l.starts_with("rename-to out.rs")
                || l.starts_with("rename-from out.rs") || l.starts_with("truncate out.rs")
        })
        .cloned()
}

pub struct Outcome {
    pub stats: Stats,
    pub violation: Option<Violation>,
}

/// What sits at the output path: nothing, a file with these bytes, or a directory.
#[derive(Clone, PartialEq, Debug)]
enum FileState {
    Missing,
    File(Vec<u8>),
    Dir,
}
impl FileState {
    fn read(p: &Path) -> FileState {
        match std::fs::metadata(p) {
            Err(_) => FileState::Missing,
            Ok(m) if m.is_dir() => FileState::Dir,
            Ok(_) => std::fs::read(p).map(FileState::File).unwrap_or(FileState::Missing),
        }
    }
    fn bytes(&self) -> Option<&[u8]> {
        match self {
            FileState::File(b) => Some(b),
            _ => None,
        }
    }
    fn describe(&self) -> String {
        match self {
            FileState::Missing => "does not exist".into(),
            FileState::Dir => "is a directory".into(),
            FileState::File(b) => format!("({} bytes)", b.len()),
        }
    }
}
extern "C" {
    fn geteuid() -> u32;
    fn utimensat(dirfd: i32, path: *const std::os::raw::c_char, times: *const [i64; 4], flags: i32) -> i32;
}

/// The simulator owns the files' timestamps: before every invocation both files get the modification time the history
/// assigns them (a logical clock), so that "newer than" is a function of the history and not of how fast the run goes.
fn set_mtime(p: &Path, secs: i64) {
    use std::os::unix::ffi::OsStrExt;
    if let Ok(c) = std::ffi::CString::new(p.as_os_str().as_bytes()) {
        let times: [i64; 4] = [secs, 0, secs, 0];
        // AT_FDCWD = -100
        unsafe { utimensat(-100, c.as_ptr(), &times, 0) };
    }
}

const T0: i64 = 1_600_000_000;

fn remove_any(p: &Path) {
    let _ = std::fs::remove_file(p);
    let _ = std::fs::remove_dir_all(p);
}

macro_rules! fail {
    ($oracle:expr, $step:expr, $($fmt:tt)*) => {
        return Some(Violation { oracle: $oracle, step: $step, what: format!($($fmt)*) })
    };
}

fn exec(world: &World, sc: &Scenario, run_tag: &str) -> Outcome {
    let dir = world.simfs.join(format!("run-{}-{}", std::process::id(), run_tag));
    let _ = std::fs::remove_dir_all(&dir);
    std::fs::create_dir_all(&dir).expect("create run directory");
    let mut stats = Stats::default();
    let v = exec_in(world, sc, &dir, &mut stats);
    let _ = std::fs::remove_dir_all(&dir);
    Outcome { stats, violation: v }
}

/// The command line of one invocation in the scenario's spelling. `output`: None = stdout mode.
fn cli_args(style: u8, dir: &Path, output: bool, check: bool, fmt: bool) -> Vec<String> {
    let abs = |name: &str| dir.join(name).to_string_lossy().into_owned();
    let input = if style == 4 { abs("in.rs") } else { "in.rs".to_string() };
    let out = match style { 4 => abs("out.rs"), 5 => "sub/out.rs".to_string(), _ => "out.rs".to_string() };
    let mut opts: Vec<String> = Vec::new();
    if output {
        match style {
            2 => { opts.push("-o".into()); opts.push(out); }
            3 => opts.push(format!("--output={out}")),
            _ => { opts.push("--output".into()); opts.push(out); }
        }
    }
    if check { opts.push("--check".into()); }
    if fmt { opts.push("--format".into()); }
    let mut v = Vec::new();
    if style == 1 { v.extend(opts); v.push(input); } else { v.push(input); v.extend(opts); }
    v
}

fn exec_in(world: &World, sc: &Scenario, dir: &Path, stats: &mut Stats) -> Option<Violation> {
    let inp = dir.join("in.rs");
    let outp = if sc.arg_style == 5 { let _ = std::fs::create_dir_all(dir.join("sub")); dir.join("sub").join("out.rs") } else { dir.join("out.rs") };
    let style = sc.arg_style;
    let mut d = sc.source.clone();
    std::fs::write(&inp, &d).expect("write in.rs");
    let mut dirty = false; // a Mutate or a hard fault happened since the last successful write
    let mut input_broken: Option<String> = None;
    // logical modification times (seconds): the input starts at T0; an edit moves it to the step's time, or - every third
    // one - far into the past (a file restored with its old timestamp: cp -p, rsync -t, tar x); whatever touches the output
    // file (a mutation, a write) gives it the step's time
    let mut in_t: i64 = T0;
    let mut out_t: i64 = T0 + 1;

    for (i, step) in sc.steps.iter().enumerate() {
        let stepno = i + 1;
        match step {
            Step::Edit { .. } => in_t = if stepno % 3 == 2 { T0 - 86_400 } else { T0 + 10 * stepno as i64 },
            Step::BreakInput(_) => in_t = T0 + 10 * stepno as i64,
            Step::Mutate(_) => out_t = T0 + 10 * stepno as i64,
            Step::Write { .. } | Step::Check { .. } | Step::Print { .. } => {
                set_mtime(&inp, in_t);
                set_mtime(&outp, out_t);
                if matches!(step, Step::Write { .. }) { out_t = T0 + 10 * stepno as i64 + 5; }
            }
        }
        match step {
            Step::Edit { source } => {
                d = source.clone();
                remove_any(&inp);
                std::fs::write(&inp, &d).expect("write in.rs");
                input_broken = None;
                stats.hit("env_edit_input");
                dirty = true;
            }
            Step::BreakInput(kind) => {
                remove_any(&inp);
                match kind.as_str() {
                    "NonUtf8" => { let mut b = vec![0xffu8, 0xfe, b'\n']; b.extend_from_slice(d.as_bytes()); std::fs::write(&inp, b).expect("write in.rs"); }
                    "Missing" => {}
                    "Empty" => std::fs::write(&inp, b"").expect("write in.rs"),
                    _ => std::fs::write(&inp, b"enum { #[token(\"a\")] ").expect("write in.rs"),
                }
                input_broken = Some(kind.clone());
                stats.hit("env_break_input");
                dirty = true;
            }
            Step::Mutate(m) => {
                let state = FileState::read(&outp);
                if matches!(m, Mut::ReadOnly) {
                    use std::os::unix::fs::PermissionsExt;
                    if state.bytes().is_some() && std::fs::set_permissions(&outp, std::fs::Permissions::from_mode(0o444)).is_ok() {
                        stats.hit("env_mutation_write_permission_removed");
                    } else {
                        stats.hit("env_mutation_skipped_no_file");
                    }
                    continue;
                }
                if matches!(m, Mut::Directory) {
                    remove_any(&outp);
                    std::fs::create_dir_all(&outp).expect("mkdir out.rs");
                    stats.hit("env_mutation_directory_in_place_of_file");
                    dirty = true;
                    continue;
                }
                let cur: Option<Vec<u8>> = state.bytes().map(|b| b.to_vec());
                let new: Option<Vec<u8>> = match (m, cur) {
                    (Mut::Delete, _) => None,
                    (Mut::Empty, _) => Some(Vec::new()),
                    (Mut::ReplaceBy(src), _) => Some(world.expected_output(src).unwrap_or_default().into_bytes()),
                    (_, None) => { stats.hit("env_mutation_skipped_no_file"); continue; }
                    (Mut::Directory, _) | (Mut::ReadOnly, _) => unreachable!(),
                    (Mut::NonUtf8, Some(c)) => { let mut o = vec![0xffu8, 0xfe, b'\n']; o.extend_from_slice(&c); Some(o) }
                    (Mut::PrependBom, Some(c)) => { let mut o = vec![0xefu8, 0xbb, 0xbf]; o.extend_from_slice(&c); Some(o) }
                    (Mut::NonUtf8Tail(k), Some(mut c)) => {
                        let tail: &[u8] = match k % 3 { 0 => b"\xff\xfe", 1 => b"\n\xff\xfe\x00garbage that is not rust\nfn stale() {}\n", _ => b"\n\xc3\x28\n" };
                        c.extend_from_slice(tail);
                        Some(c)
                    }
                    (Mut::NonUtf8Inside(k), Some(mut c)) => {
                        let mut at = if c.is_empty() { 0 } else { k % c.len() };
                        while at < c.len() && (c[at] & 0xC0) == 0x80 { at += 1; }
                        let ins: &[u8] = b"\xff\xfe";
                        c.splice(at..at, ins.iter().cloned());
                        Some(c)
                    }
                    (Mut::InsertText(k), Some(mut c)) => {
                        // at a char boundary: in front (k == 0) or somewhere inside
                        let mut at = if *k == 0 || c.is_empty() { 0 } else { k % c.len() };
                        while at < c.len() && (c[at] & 0xC0) == 0x80 { at += 1; }
                        let ins: &[u8] = b" zz ";
                        c.splice(at..at, ins.iter().cloned());
                        Some(c)
                    }
                    (Mut::ToCrlf, Some(c)) => {
                        let mut o = Vec::new();
                        for (k, &b) in c.iter().enumerate() {
                            if b == b'\n' && (k == 0 || c[k - 1] != b'\r') { o.push(b'\r'); }
                            o.push(b);
                        }
                        Some(o)
                    }
                    (Mut::ToLf, Some(c)) => {
                        let mut o = Vec::new();
                        for (k, &b) in c.iter().enumerate() {
                            if b == b'\r' && c.get(k + 1) == Some(&b'\n') { continue; }
                            o.push(b);
                        }
                        Some(o)
                    }
                    (Mut::AddFinalNewline, Some(mut c)) => { if !c.ends_with(b"\n") { c.push(b'\n'); } Some(c) }
                    (Mut::RemoveFinalNewline, Some(mut c)) => { if c.ends_with(b"\n") { c.pop(); if c.ends_with(b"\r") { c.pop(); } } Some(c) }
                    (Mut::FlipAlnum(k), Some(mut c)) => {
                        let idx: Vec<usize> = (0..c.len()).filter(|&j| c[j].is_ascii_alphanumeric()).collect();
                        if !idx.is_empty() {
                            let j = idx[k % idx.len()];
                            c[j] = if c[j] == b'q' { b'z' } else { b'q' };
                        }
                        Some(c)
                    }
                    (Mut::Truncate(k), Some(mut c)) => { let k = (*k).min(c.len()); c.truncate(k); Some(c) }
                    (Mut::AppendGarbage, Some(mut c)) => { c.extend_from_slice(b"\nfn garbage() {}\n"); Some(c) }
                };
                remove_any(&outp);
                match new {
                    None => {}
                    Some(b) => std::fs::write(&outp, b).expect("mutate out.rs"),
                }
                stats.hit(match m {
                    Mut::ToCrlf => "env_mutation_to_crlf", Mut::ToLf => "env_mutation_to_lf", Mut::AddFinalNewline => "env_mutation_add_final_newline",
                    Mut::RemoveFinalNewline => "env_mutation_remove_final_newline", Mut::FlipAlnum(_) => "env_mutation_flip_byte", Mut::Truncate(_) => "env_mutation_truncate",
                    Mut::Delete => "env_mutation_delete", Mut::Empty => "env_mutation_empty", Mut::AppendGarbage => "env_mutation_append_garbage", Mut::ReplaceBy(_) => "env_mutation_replace_by_other_enum",
                    Mut::NonUtf8 => "env_mutation_non_utf8_content", Mut::Directory => "env_mutation_directory_in_place_of_file",
                    Mut::PrependBom => "env_mutation_prepend_bom", Mut::InsertText(_) => "env_mutation_insert_text",
                    Mut::ReadOnly => unreachable!(),
                    Mut::NonUtf8Tail(_) => "env_mutation_non_utf8_tail_after_complete_content", Mut::NonUtf8Inside(_) => "env_mutation_non_utf8_inside_content",
                });
                dirty = true;
            }
            Step::Print { .. } | Step::Write { .. } | Step::Check { .. } if input_broken.is_some() => {
                // K6: with an input that cannot be read or parsed there is no "that output": nothing may report success,
                // and a check still must not touch the file
                let (args, plan, is_check): (Vec<String>, &Plan, bool) = match step {
                    Step::Print { fmt, plan } => (cli_args(style, dir, false, false, *fmt), plan, false),
                    Step::Write { fmt, plan } => (cli_args(style, dir, true, false, *fmt), plan, false),
                    Step::Check { fmt, plan } => (cli_args(style, dir, true, true, *fmt), plan, true),
                    _ => unreachable!(),
                };
                let args: Vec<&str> = args.iter().map(|a| a.as_str()).collect();
                let before = FileState::read(&outp);
                let inv = world.invoke(dir, &args, plan);
                stats.invocations += 1;
                stats.hit("op_invocation_with_broken_input");
                count_faults(&inv.log, stats);
                if inv.code == 0 {
                    fail!("K6-input", stepno, "logos-cli {:?} reported success although the input file is unusable ({})", args, input_broken.as_deref().unwrap_or(""));
                }
                if is_check {
                    let after = FileState::read(&outp);
                    if after != before { fail!("K1-modified", stepno, "--check changed out.rs: before it {}, after it {}", before.describe(), after.describe()); }
                    if let Some(l) = touched_out(&inv.log) { fail!("K1-modified", stepno, "--check performed a modifying operation on out.rs: {l}"); }
                }
            }
            Step::Print { fmt, plan } => {
                let Some(expected) = world.expected_output(&d) else { fail!("K5-fails", stepno, "logos-cli exits with an error on this enum without any fault injected") };
                if let Some((o, w)) = world.content_verdict(&d) { fail!(o, stepno, "{}", w); }
                let args = cli_args(style, dir, false, false, *fmt);
                let args: Vec<&str> = args.iter().map(|a| a.as_str()).collect();
                let inv = world.invoke(dir, &args, plan);
                stats.invocations += 1;
                stats.hit("op_print");
                count_faults(&inv.log, stats);
                if let Some(l) = touched_out(&inv.log) { fail!("K4-writes", stepno, "stdout mode touched the output file: {l}"); }
                let hard = hard_rules(plan, *fmt);
                if *fmt && plan.rustfmt == "real" { stats.hit("op_format_through_the_real_rustfmt"); }
                let expected = if *fmt { match world.formatted(&expected, plan) { Some(e) => e, None => { stats.hit("real_rustfmt_refused_the_output"); continue; } } } else { expected };
                let want = format!("{expected}\n");
                if inv.code == 0 && inv.stdout != want.as_bytes() {
                    let at = inv.stdout.iter().zip(want.as_bytes()).position(|(a, b)| a != b).unwrap_or(inv.stdout.len().min(want.len()));
                    fail!("K4-stdout", stepno, "logos-cli printed different text for the same enum under hash seed {} than under the reference seed (first difference at byte {}, lengths {} and {}){}",
                        plan.hash_seed, at, inv.stdout.len(), want.len(), if hard { " [hard fault injected, yet exit status 0]" } else { "" });
                }
                if inv.code != 0 && !hard {
                    fail!("K4-fails", stepno, "logos-cli failed (exit {}) with only transparent faults ({:?}): {}", inv.code, plan.rules, inv.stderr.chars().take(300).collect::<String>());
                }
                if plan.hash_seed != FIXED_SEED { stats.hit("probe_print_under_other_hash_seed"); }
            }
            Step::Write { fmt, plan } => {
                let Some(expected) = world.expected_output(&d) else { fail!("K5-fails", stepno, "logos-cli exits with an error on this enum without any fault injected") };
                if let Some((o, w)) = world.content_verdict(&d) { fail!(o, stepno, "{}", w); }
                let args = cli_args(style, dir, true, false, *fmt);
                let args: Vec<&str> = args.iter().map(|a| a.as_str()).collect();
                if *fmt && plan.rustfmt == "real" { stats.hit("op_format_through_the_real_rustfmt"); }
                let expected = if *fmt { match world.formatted(&expected, plan) { Some(e) => e, None => { stats.hit("real_rustfmt_refused_the_output"); continue; } } } else { expected };
                let before = FileState::read(&outp);
                let inv = world.invoke(dir, &args, plan);
                stats.invocations += 1;
                stats.hit(if *fmt { "op_write_format" } else { "op_write" });
                count_faults(&inv.log, stats);
                // an output path that cannot be read as text (not UTF-8) or is not a file is a hard condition of the environment
                let unreadable = matches!(before, FileState::Dir) || before.bytes().map(|b| std::str::from_utf8(b).is_err()).unwrap_or(false);
                // a file without write permission is a hard condition for a WRITE unless the process may write it anyway (root)
                let unwritable = {
                    use std::os::unix::fs::PermissionsExt;
                    let ro = std::fs::metadata(&outp).map(|m| m.is_file() && m.permissions().mode() & 0o222 == 0).unwrap_or(false);
                    ro && unsafe { geteuid() } != 0
                };
                let hard = hard_rules(plan, *fmt) || unreadable || unwritable;
                let after = FileState::read(&outp);
                if inv.code == 0 {
                    match after.bytes() {
                        Some(a) if model_equal(a, &expected) => {}
                        _ => fail!("K3-write", stepno, "logos-cli --output reported success but out.rs {} and does not hold the output for the enum ({} bytes); plan {:?}, rustfmt {}", after.describe(), expected.len(), plan.rules, plan.rustfmt),
                    }
                    dirty = false;
                } else {
                    if !hard {
                        fail!("K3-fails", stepno, "logos-cli --output failed (exit {}) with only transparent faults ({:?}, rustfmt {}): {}", inv.code, plan.rules, plan.rustfmt, inv.stderr.chars().take(300).collect::<String>());
                    }
                    stats.hit("probe_write_failed_under_hard_fault");
                    if after.bytes().map(|a| !model_equal(a, &expected)).unwrap_or(false) { stats.hit("probe_torn_or_stale_file_left_by_failed_write"); }
                    dirty = true;
                }
            }
            Step::Check { fmt, plan } => {
                let Some(expected) = world.expected_output(&d) else { fail!("K5-fails", stepno, "logos-cli exits with an error on this enum without any fault injected") };
                if let Some((o, w)) = world.content_verdict(&d) { fail!(o, stepno, "{}", w); }
                let before = FileState::read(&outp);
                let args = cli_args(style, dir, true, true, *fmt);
                let args: Vec<&str> = args.iter().map(|a| a.as_str()).collect();
                if *fmt && plan.rustfmt == "real" { stats.hit("op_format_through_the_real_rustfmt"); }
                let expected = if *fmt { match world.formatted(&expected, plan) { Some(e) => e, None => { stats.hit("real_rustfmt_refused_the_output"); continue; } } } else { expected };
                let inv = world.invoke(dir, &args, plan);
                stats.invocations += 1;
                stats.hit(if *fmt { "op_check_format" } else { "op_check" });
                count_faults(&inv.log, stats);
                let after = FileState::read(&outp);
                // K1: read-only
                if after != before {
                    fail!("K1-modified", stepno, "--check changed out.rs: before it {}, after it {}", before.describe(), after.describe());
                }
                if let Some(l) = touched_out(&inv.log) {
                    fail!("K1-modified", stepno, "--check performed a modifying operation on out.rs: {l}");
                }
                // K2: verdict
                let hard = hard_rules(plan, *fmt);
                let holds = before.bytes().map(|b| model_equal(b, &expected)).unwrap_or(false);
                if inv.code == 0 && !holds {
                    fail!("K2-accepts", stepno, "--check succeeded although out.rs {} and does not hold the output for the enum ({} bytes) (plan {:?}, rustfmt {})",
                        before.describe(), expected.len(), plan.rules, plan.rustfmt);
                }
                if inv.code != 0 && holds && !hard {
                    fail!("K2-rejects", stepno, "--check failed (exit {}) although out.rs holds the output for the enum up to line endings (plan {:?}): {}", inv.code, plan.rules, inv.stderr.chars().take(300).collect::<String>());
                }
                if dirty { stats.check_after_mutation_or_hard_fault = true; stats.hit("probe_check_after_mutation_or_failed_write"); }
                if holds && before.bytes().map(|b| b.contains(&b'\r')).unwrap_or(false) { stats.hit("probe_check_accepts_crlf_file"); }
                if hard { stats.hit("probe_check_under_hard_fault"); }
                if matches!(before, FileState::Dir) { stats.hit("probe_check_with_directory_in_place_of_file"); }
                if before.bytes().map(|b| std::str::from_utf8(b).is_err()).unwrap_or(false) { stats.hit("probe_check_with_non_utf8_file"); }
                if plan.hash_seed != FIXED_SEED && holds { stats.hit("probe_check_under_other_hash_seed_than_write"); }
            }
        }
    }
    None
}

// ---------------------------------------------------------------------------------------------
// Workload generation
// ---------------------------------------------------------------------------------------------

/// set when a real rustfmt is available (thorough tier): some --format steps then use it instead of the stub
static REAL_RUSTFMT: std::sync::atomic::AtomicBool = std::sync::atomic::AtomicBool::new(false);

fn gen_plan(rng: &mut Rng, kind: u8, faults: bool) -> Plan {
    // kind: 0 write, 1 check, 2 print
    let hash_seed = to_hex(&rng.bytes16());
    let mut rules = Vec::new();
    let mut rustfmt = "pass".to_string();
    if faults {
        match rng.below(8) {
            0..=3 => {}
            4 | 5 => {
                // transparent
                for _ in 0..rng.range(1, 2) {
                    rules.push(match rng.below(6) {
                        0 => format!("read:in.rs:{}:EINTR", rng.below(2)),
                        1 => format!("read:out.rs:{}:EINTR", rng.below(3)),
                        2 => format!("read:in.rs:*:SHORT:{}", rng.range(1, 40)),
                        3 => format!("read:out.rs:*:SHORT:{}", rng.range(1, 4000)),
                        4 => format!("write:{}:*:SHORT:{}", if kind == 2 { "stdout" } else { "out.rs" }, rng.range(1, 3000)),
                        _ => format!("write:{}:{}:EINTR", if kind == 2 { "stdout" } else { "out.rs" }, rng.below(3)),
                    });
                }
            }
            _ => {
                // hard
                rules.push(match (kind, rng.below(6)) {
                    (_, 0) => format!("read:in.rs:{}:EIO", rng.below(2)),
                    (2, _) => format!("write:stdout:{}:EIO", rng.below(3)),
                    (_, 1) => format!("read:out.rs:{}:EIO", rng.below(2)),
                    (_, 2) => "openr:out.rs:0:EACCES".to_string(),
                    (0, 3) => "openw:out.rs:0:EACCES".to_string(),
                    (0, 4) => format!("write:out.rs:{}:ENOSPC", rng.below(2)),
                    (0, _) => format!("write:out.rs:{}:EIO", rng.below(2)),
                    (_, _) => format!("read:out.rs:{}:EIO", rng.below(3)),
                });
                if rng.chance(1, 3) { rules.push(format!("write:out.rs:*:SHORT:{}", rng.range(50, 2000))); }
            }
        }
        if rng.chance(1, 4) {
            rustfmt = rng.pick(&["fail", "nonutf8", "missing", "killed", "killedpartial"]).to_string();
        } else if REAL_RUSTFMT.load(std::sync::atomic::Ordering::Relaxed) && rng.chance(1, 3) {
            rustfmt = "real".to_string();
        } else if rng.chance(1, 5) {
            // a healthy formatter that writes CRLF line endings (newline_style = "Windows")
            rustfmt = "crlf".to_string();
        }
    } else if rng.chance(1, 4) {
        // C16 histories inject no I/O faults, but the formatter child is part of the environment the output must not depend
        // on: where it fails the invocation may fail, a success must still be the one output
        rustfmt = rng.pick(&["fail", "nonutf8", "missing", "killed", "killedpartial"]).to_string();
    }
    Plan { hash_seed, rules, rustfmt }
}

fn gen_scenario(rng: &mut Rng, defs: &[Definition], index: u64, faults: bool) -> Scenario {
    let base = &defs[(index as usize) % defs.len()];
    let source = if rng.chance(2, 3) { decorate(&base.source, rng) } else { base.source.clone() };
    let n = rng.range(3, 9);
    let mut steps = Vec::new();
    let mut approx_len = 4000usize;
    if faults && rng.chance(1, 2) {
        // motif: a healthy write, then the environment (or a failed rewrite) disturbs the file, then a check
        let clean = Plan { hash_seed: to_hex(&rng.bytes16()), rules: vec![], rustfmt: "pass".into() };
        // half of the motifs work on the many-line (formatted) file, where line endings matter
        let motif_fmt = rng.chance(1, 2);
        steps.push(Step::Write { fmt: motif_fmt, plan: clean });
        steps.push(match rng.below(10) {
            0 | 1 => Step::Mutate(Mut::ToCrlf),
            2 => Step::Mutate(Mut::AddFinalNewline),
            3 => Step::Mutate(Mut::RemoveFinalNewline),
            4 => Step::Mutate(Mut::FlipAlnum(rng.below(100_000))),
            5 => Step::Mutate(Mut::Truncate(rng.below(approx_len))),
            6 => Step::Write { fmt: false, plan: Plan { hash_seed: to_hex(&rng.bytes16()), rules: vec![format!("write:out.rs:{}:{}", rng.below(2), if rng.chance(1, 2) { "ENOSPC" } else { "EIO" }), format!("write:out.rs:*:SHORT:{}", rng.range(100, 3000))], rustfmt: "pass".into() } },
            7 => Step::Mutate(match rng.below(6) { 5 => Mut::ReadOnly, 0 => Mut::AppendGarbage, 1 => Mut::PrependBom, 2 => Mut::NonUtf8Tail(rng.below(3)), 3 => Mut::NonUtf8Inside(rng.below(100_000)), _ => Mut::InsertText(rng.below(3) * rng.below(50_000)) }),
            8 => Step::Mutate(Mut::ToLf),
            _ => Step::Edit { source: decorate(&defs[rng.below(defs.len())].source, rng) },
        });
        if rng.chance(1, 3) { steps.push(Step::Mutate(if rng.chance(1, 2) { Mut::ToCrlf } else { Mut::ToLf })); }
        let with_faults = rng.chance(1, 3);
        let fmt = if rng.chance(1, 6) { !motif_fmt } else { motif_fmt };
        let mut plan = gen_plan(rng, 1, with_faults);
        if !with_faults { plan.rustfmt = if rng.chance(1, 4) { "crlf".into() } else { "pass".into() }; }
        steps.push(Step::Check { fmt, plan });
    }
    for _ in 0..n {
        let w: [u32; 7] = if faults { [24, 8, 26, 8, 6, 8, 20] } else { [24, 8, 32, 8, 28, 0, 0] };
        steps.push(match rng.weighted(&w) {
            0 => Step::Write { fmt: false, plan: gen_plan(rng, 0, faults) },
            1 => Step::Write { fmt: true, plan: gen_plan(rng, 0, faults) },
            2 => Step::Check { fmt: false, plan: gen_plan(rng, 1, faults) },
            3 => Step::Check { fmt: true, plan: gen_plan(rng, 1, faults) },
            4 => { let fmt = rng.chance(1, 3); Step::Print { fmt, plan: gen_plan(rng, 2, faults) } }
            5 => {
                let other = &defs[rng.below(defs.len())];
                approx_len = 4000;
                Step::Edit { source: if rng.chance(1, 2) { decorate(&other.source, rng) } else { other.source.clone() } }
            }
            _ if rng.chance(1, 14) => Step::BreakInput(rng.pick(&["NonUtf8", "Missing", "NotRust", "Empty"]).to_string()),
            _ => Step::Mutate(match rng.below(17) {
                12 => match rng.below(4) { 0 => Mut::NonUtf8, 1 => Mut::NonUtf8Inside(rng.below(100_000)), _ => Mut::NonUtf8Tail(rng.below(3)) },
                13 => if rng.chance(1, 2) { Mut::Directory } else { Mut::ReadOnly },
                14 => Mut::PrependBom,
                15 | 16 => Mut::InsertText(if rng.chance(1, 3) { 0 } else { rng.below(100_000) }),
                0 | 1 => Mut::ToCrlf,
                2 => Mut::ToLf,
                3 => Mut::AddFinalNewline,
                4 => Mut::RemoveFinalNewline,
                5 | 6 => Mut::FlipAlnum(rng.below(100_000)),
                7 | 8 => Mut::Truncate(match rng.below(3) { 0 => rng.below(64), 1 => rng.below(approx_len), _ => approx_len.saturating_sub(rng.below(8)) }),
                9 => Mut::Delete,
                10 => if rng.chance(1, 2) { Mut::Empty } else { Mut::AppendGarbage },
                _ => Mut::ReplaceBy(defs[rng.below(defs.len())].source.clone()),
            }),
        });
    }
    let arg_style = if faults { match rng.below(10) { 0 => 1, 1 => 2, 2 => 3, 3 => 4, 4 => 5, _ => 0 } } else { 0 };
    Scenario { def_id: base.id.clone(), source, arg_style, steps }
}

fn signature(prop: &str, sc: &Scenario, v: &Violation) -> String {
    format!("{}/{}/{}", prop, v.oracle, sc.def_id)
}

fn replay_json(prop: &str, sc: &Scenario, v: &Violation, seed: u64, index: u64, minimised: bool) -> Value {
    json!({
        "format": 1, "property": prop, "engine": "cli-sim", "oracle": v.oracle, "verif_seed": seed, "run_index": index, "minimised": minimised,
        "build": build_info!(), "scenario": sc.to_json(),
        "violation": {"step": v.step, "what": v.what, "signature": signature(prop, sc, v)},
    })
}

fn minimise(world: &World, sc: &Scenario, v: &Violation, tag: &str) -> (Scenario, Violation) {
    let fails = |t: &Scenario| matches!(exec(world, t, tag).violation, Some(ref w) if w.oracle == v.oracle);
    let mut best = sc.clone();
    best.steps.truncate(v.step.min(best.steps.len()));
    let mut budget: u32 = 120;
    let base = best.clone();
    best.steps = ddmin(&base.steps, &mut budget, |cand| fails(&Scenario { steps: cand.to_vec(), ..base.clone() }));
    // drop plan rules
    for i in 0..best.steps.len() {
        let mut t = best.clone();
        let simplified = match &mut t.steps[i] {
            Step::Write { plan, .. } | Step::Check { plan, .. } | Step::Print { plan, .. } => {
                if plan.rules.is_empty() && plan.rustfmt == "pass" { false } else { plan.rules.clear(); plan.rustfmt = "pass".into(); true }
            }
            _ => false,
        };
        if simplified && budget > 0 {
            budget -= 1;
            if fails(&t) { best = t; }
        }
    }
    // shrink the enum: delete variants
    if let Ok(mut item) = syn::parse_str::<syn::ItemEnum>(&best.source) {
        let mut i = 0;
        while i < item.variants.len() && budget > 0 {
            let mut cand = item.clone();
            let kept: Vec<syn::Variant> = cand.variants.iter().enumerate().filter(|(j, _)| *j != i).map(|(_, x)| x.clone()).collect();
            if kept.is_empty() { break; }
            cand.variants = kept.into_iter().collect();
            let t = Scenario { source: cand.to_token_stream().to_string(), ..best.clone() };
            budget -= 1;
            if fails(&t) { item = cand; best = t; } else { i += 1; }
        }
    }
    let w = exec(world, &best, tag).violation.unwrap_or_else(|| v.clone());
    (best, w)
}

fn main() {
    install_quiet_panic_hook();
    let args = Args::parse();
    let out_path = args.get("out").map(|s| s.to_string());
    let repo = args.get("repo").unwrap_or("/repo").to_string();
    let mode = args.get("mode").unwrap_or("c17").to_string();
    let prop = if mode == "c16" { "C16" } else { "C17" };
    let faults = mode != "c16";
    let need = |k: &str| -> PathBuf {
        match args.get(k) {
            Some(p) => PathBuf::from(p),
            None => { eprintln!("cli-sim: --{k} is required"); std::process::exit(2) }
        }
    };
    let cli = need("cli");
    let shim = need("shim");
    let stub = need("rustfmt-stub");
    let simfs = PathBuf::from(args.get("simfs").unwrap_or("/verif/target/simfs"));
    for p in [&cli, &shim, &stub] {
        if !p.exists() { eprintln!("cli-sim: {} does not exist", p.display()); std::process::exit(2); }
    }
    let stub_dir = simfs.join(format!("path-{}", std::process::id()));
    let empty_dir = simfs.join(format!("emptypath-{}", std::process::id()));
    std::fs::create_dir_all(&stub_dir).expect("simfs");
    std::fs::create_dir_all(&empty_dir).expect("simfs");
    std::fs::copy(&stub, stub_dir.join("rustfmt")).expect("install rustfmt stub");
    // initialise logos-codegen's lazy statics on a throw-away thread (see hash-sim::warm_up)
    let _ = reference_generate(r#"#[derive(Logos)] #[logos(subpattern x = "a.")] enum W { #[regex("(?&x)+")] A, #[regex(".", priority = 0)] B }"#);
    let real_dir = match args.get("real-rustfmt") {
        Some(p) if Path::new(p).exists() => {
            let d = simfs.join(format!("realpath-{}", std::process::id()));
            std::fs::create_dir_all(&d).expect("simfs");
            let _ = std::fs::remove_file(d.join("rustfmt"));
            std::os::unix::fs::symlink(p, d.join("rustfmt")).expect("link real rustfmt");
            // the mode is always available for replays; only `--use-real-rustfmt` (thorough tier) lets the scheduler pick it
            REAL_RUSTFMT.store(args.flag("use-real-rustfmt"), std::sync::atomic::Ordering::Relaxed);
            Some(d)
        }
        _ => None,
    };
    let real_dir_cleanup = real_dir.clone();
    let world = World { real_dir, real_fmt: Mutex::new(BTreeMap::new()), check_content: mode != "c16", undecidable: std::sync::atomic::AtomicU64::new(0), cli, shim, stub_dir: stub_dir.clone(), empty_dir: empty_dir.clone(), simfs: simfs.clone(), expected: Mutex::new(BTreeMap::new()), content: Mutex::new(BTreeMap::new()) };
    let cleanup = || { let _ = std::fs::remove_dir_all(&stub_dir); let _ = std::fs::remove_dir_all(&empty_dir); if let Some(d) = &real_dir_cleanup { let _ = std::fs::remove_dir_all(d); } };

    if let Some(path) = args.get("replay") {
        let v = read_json(path);
        let Some(sc) = v.get("scenario").and_then(Scenario::from_json) else {
            eprintln!("cli-sim: {path} is not a usable replay file");
            cleanup();
            std::process::exit(2)
        };
        let prop = v.get("property").and_then(|p| p.as_str()).unwrap_or(prop).to_string();
        let out = exec(&world, &sc, "replay");
        let result = match &out.violation {
            Some(w) => json!({"reproduced": true, "signature": signature(&prop, &sc, w), "what": w.what, "oracle": w.oracle, "step": w.step, "build": build_info!()}),
            None => json!({"reproduced": false, "build": build_info!()}),
        };
        println!("{}", result);
        if let Some(p) = out_path { write_json(&p, &result); }
        cleanup();
        std::process::exit(if out.violation.is_some() { 1 } else { 0 });
    }

    let seed = args.num("seed", DEFAULT_SEED);
    let runs = args.num("runs", 200);
    let workers = args.num("workers", 16) as usize;
    let replay_dir = args.get("replay-dir").unwrap_or("/verif/replays").to_string();
    let tag = args.get("tag").unwrap_or("build").to_string();
    let n_random = args.num("random-defs", 40) as usize;
    let defs = defsrc::all_definitions(&repo, seed, n_random);
    if defs.len() < 50 {
        eprintln!("cli-sim: only {} definitions found under {repo}", defs.len());
        cleanup();
        std::process::exit(2);
    }
    // enums the CLI can process at all (parse as a single enum)
    let defs: Vec<Definition> = defs.into_iter().filter(|d| syn::parse_str::<syn::ItemEnum>(&d.source).is_ok()).collect();

    let stream = if faults { "cli-sim/c17" } else { "cli-sim/c16" };
    let batch = run_batch(runs, workers, (runs / 4).max(1), |i, want_sample| {
        let mut rng = Rng::for_run(seed, stream, i);
        let sc = gen_scenario(&mut rng, &defs, i, faults);
        let out = exec(&world, &sc, &format!("{i}"));
        let mut counters: Vec<(&'static str, u64)> = out.stats.c.iter().map(|(k, v)| (*k, *v)).collect();
        counters.push(("cli_invocations", out.stats.invocations));
        let nontrivial = if faults { out.stats.check_after_mutation_or_hard_fault } else {
            out.stats.c.get("probe_check_under_other_hash_seed_than_write").is_some() || out.stats.c.get("probe_print_under_other_hash_seed").is_some()
        };
        let sample = if want_sample { Some(json!({"run_index": i, "scenario": sc.to_json(), "violation": out.violation.as_ref().map(|v| v.what.clone())})) } else { None };
        let failure = out.violation.as_ref().map(|v| Failure { class: format!("{}/{}", v.oracle, if v.oracle.starts_with("K5") { sc.def_id.clone() } else { String::new() }), what: v.what.clone(), replay: replay_json(prop, &sc, v, seed, i, false) });
        RunReport { trace_hash: sc.hash(), nontrivial, steps: out.stats.invocations, counters, sample, failure }
    });

    let mut failures_json = Vec::new();
    let mut reps: Vec<(&String, &(u64, Failure))> = batch.failures.iter().collect();
    reps.sort_by_key(|(_, (i, _))| *i);
    for (class, (index, fail)) in reps.into_iter().take(6) {
        let sc = Scenario::from_json(fail.replay.get("scenario").unwrap()).unwrap();
        let first = exec(&world, &sc, "min");
        let Some(v) = first.violation else {
            eprintln!("cli-sim: run {index} failed ({class}) but its recorded history does not reproduce it: harness defect or nondeterminism outside the seams");
            cleanup();
            std::process::exit(2);
        };
        let (msc, mv) = minimise(&world, &sc, &v, "min");
        let rj = replay_json(prop, &msc, &mv, seed, *index, true);
        let path = format!("{}/{}-{}-{}-{}.json", replay_dir, prop, tag, seed, index);
        write_json(&path, &rj);
        failures_json.push(json!({"class": class, "run_index": index, "signature": signature(prop, &msc, &mv), "what": mv.what, "replay": path,
            "steps_before": sc.steps.len(), "steps_after": msc.steps.len(), "source_len_before": sc.source.len(), "source_len_after": msc.source.len()}));
    }

    let mut result = batch.to_json();
    result["engine"] = json!("cli-sim");
    result["mode"] = json!(mode);
    result["seed"] = json!(seed);
    result["build"] = build_info!();
    result["tag"] = json!(tag);
    result["definitions"] = json!(defs.len());
    result["distinct_enum_texts_processed"] = json!(world.expected.lock().unwrap().len());
    result["k5_impl_undecidable_codegen_is_seed_dependent"] = json!(world.undecidable.load(std::sync::atomic::Ordering::Relaxed));
    result["failures"] = json!(failures_json);
    result["failure_classes"] = json!(batch.failures.len());
    cleanup();
    match out_path {
        Some(p) => write_json(&p, &result),
        None => println!("{:#}", result),
    }
}
