//! Stand-in for `rustfmt` on the simulated PATH. Mode from VERIF_RUSTFMT_MODE:
//! pass (stdin -> stdout unchanged), fail (exit 1), nonutf8 (bytes that are not UTF-8, exit 0).
use std::io::{Read, Write};
fn main() {
    let mode = std::env::var("VERIF_RUSTFMT_MODE").unwrap_or_else(|_| "pass".into());
    let mut input = Vec::new();
    let _ = std::io::stdin().read_to_end(&mut input);
    match mode.as_str() {
        "fail" => std::process::exit(1),
        "nonutf8" => {
            let _ = std::io::stdout().write_all(&[0xff, 0xfe, b'x', b'\n']);
        }
        _ => {
            let _ = std::io::stdout().write_all(&input);
        }
    }
}
