//! Stand-in for `rustfmt` on the simulated PATH. Mode from VERIF_RUSTFMT_MODE:
//! pass (stdin -> stdout, broken into lines: see pretty.rs), crlf (the same with CRLF line endings), fail (exit 1), nonutf8 (bytes that are not UTF-8, exit 0),
//! killed (consumes stdin, prints nothing, dies from SIGKILL), killedpartial (prints the first half
//! of its input, then dies from SIGKILL) — a formatter taken down by the OOM killer or a CI timeout.
use std::io::{Read, Write};

#[path = "../pretty.rs"]
mod pretty;

extern "C" {
    fn raise(sig: i32) -> i32;
}

fn main() {
    let mode = std::env::var("VERIF_RUSTFMT_MODE").unwrap_or_else(|_| "pass".into());
    let mut input = Vec::new();
    let _ = std::io::stdin().read_to_end(&mut input);
    match mode.as_str() {
        "fail" => std::process::exit(1),
        "nonutf8" => {
            let _ = std::io::stdout().write_all(&[0xff, 0xfe, b'x', b'\n']);
        }
        "killed" => unsafe {
            raise(9);
        },
        "killedpartial" => {
            let mut half = input.len() / 2;
            while half > 0 && (input[half] & 0xC0) == 0x80 {
                half -= 1;
            }
            let _ = std::io::stdout().write_all(&input[..half]);
            let _ = std::io::stdout().flush();
            unsafe {
                raise(9);
            }
        }
        "crlf" => {
            // a formatter configured with `newline_style = "Windows"` (or running on Windows)
            let text = String::from_utf8_lossy(&input);
            let _ = std::io::stdout().write_all(pretty::pretty(&text).replace('\n', "\r\n").as_bytes());
        }
        _ => {
            let text = String::from_utf8_lossy(&input);
            let _ = std::io::stdout().write_all(pretty::pretty(&text).as_bytes());
        }
    }
}
