//! LD_PRELOAD shim: the simulator's seam into an unmodified child process (logos-cli).
//!
//! * `getrandom`: when VERIF_HASH_SEED=<32 hex digits> is set, std's hash keys come from it.
//! * file I/O on paths containing VERIF_TRACK (the run's private directory) and on stdout:
//!   every open/read/write/close/unlink/rename/truncate is logged to VERIF_SHIM_LOG, and
//!   VERIF_PLAN injects faults:
//!       plan  := rule (',' rule)*
//!       rule  := op ':' file ':' index ':' kind [':' arg]
//!       op    := read | write | openw | openr
//!       file  := suffix of the path (e.g. out.rs, in.rs) or `stdout`
//!       index := n (the n-th call of that op on that file, from 0) | `*` (every call)
//!       kind  := EINTR | EIO | ENOSPC | EACCES | SHORT (arg = max bytes transferred)
//!
//! Everything goes through raw system calls, so the shim never re-enters itself.

#![allow(clippy::missing_safety_doc)]

use libc::{c_char, c_int, c_uint, c_void, mode_t, size_t, ssize_t};
use std::sync::atomic::{AtomicI32, AtomicU32, Ordering::SeqCst};

const MAX_FDS: usize = 64;
const MAX_FILES: usize = 8;

// fd -> index of tracked file (+1), 0 = untracked
static FD_FILE: [AtomicI32; MAX_FDS] = [const { AtomicI32::new(0) }; MAX_FDS];
// per tracked file: counters
static READS: [AtomicU32; MAX_FILES] = [const { AtomicU32::new(0) }; MAX_FILES];
static WRITES: [AtomicU32; MAX_FILES] = [const { AtomicU32::new(0) }; MAX_FILES];
static OPENW: [AtomicU32; MAX_FILES] = [const { AtomicU32::new(0) }; MAX_FILES];
static OPENR: [AtomicU32; MAX_FILES] = [const { AtomicU32::new(0) }; MAX_FILES];

// names of tracked files (suffix after the last '/'), fixed small table filled on first sight
static mut NAMES: [[u8; 64]; MAX_FILES] = [[0; 64]; MAX_FILES];
static NNAMES: AtomicU32 = AtomicU32::new(1); // slot 0 is reserved for stdout

unsafe fn env(name: &[u8]) -> Option<&'static [u8]> {
    let p = libc::getenv(name.as_ptr() as *const c_char);
    if p.is_null() {
        None
    } else {
        Some(std::ffi::CStr::from_ptr(p).to_bytes())
    }
}

unsafe fn log(parts: &[&[u8]]) {
    if let Some(p) = env(b"VERIF_SHIM_LOG\0") {
        let mut buf = [0u8; 512];
        let mut n = 0;
        for part in parts {
            for &b in *part {
                if n < buf.len() - 1 {
                    buf[n] = b;
                    n += 1;
                }
            }
        }
        buf[n] = b'\n';
        n += 1;
        let fd = libc::syscall(libc::SYS_openat, libc::AT_FDCWD, p.as_ptr(), libc::O_WRONLY | libc::O_CREAT | libc::O_APPEND, 0o644) as c_int;
        if fd >= 0 {
            libc::syscall(libc::SYS_write, fd, buf.as_ptr(), n);
            libc::syscall(libc::SYS_close, fd);
        }
    }
}

fn num(n: u64, out: &mut [u8; 24]) -> &[u8] {
    let mut i = out.len();
    let mut n = n;
    if n == 0 {
        i -= 1;
        out[i] = b'0';
    }
    while n > 0 {
        i -= 1;
        out[i] = b'0' + (n % 10) as u8;
        n /= 10;
    }
    &out[i..]
}

unsafe fn file_name(idx: usize) -> &'static [u8] {
    if idx == 0 {
        return b"stdout";
    }
    let raw = &*std::ptr::addr_of!(NAMES[idx]);
    let n = raw.iter().position(|&b| b == 0).unwrap_or(raw.len());
    &raw[..n]
}

/// Index of the tracked file for `path`, registering it on first sight; None if untracked.
unsafe fn tracked_index(path: *const c_char) -> Option<usize> {
    if path.is_null() {
        return None;
    }
    let p = std::ffi::CStr::from_ptr(path).to_bytes();
    let t = env(b"VERIF_TRACK\0")?;
    if t.is_empty() {
        return None;
    }
    if p.first() == Some(&b'/') {
        if !p.windows(t.len()).any(|w| w == t) {
            return None;
        }
    } else {
        // relative path: tracked if the working directory is the tracked directory
        let mut cwd = [0u8; 512];
        let n = libc::syscall(libc::SYS_getcwd, cwd.as_mut_ptr(), cwd.len());
        if n <= 0 {
            return None;
        }
        let c = &cwd[..(n as usize).saturating_sub(1)];
        if !c.windows(t.len()).any(|w| w == t) {
            return None;
        }
    }
    let base = match p.iter().rposition(|&b| b == b'/') {
        Some(i) => &p[i + 1..],
        None => p,
    };
    let n = NNAMES.load(SeqCst) as usize;
    for i in 1..n {
        if file_name(i) == base {
            return Some(i);
        }
    }
    if n >= MAX_FILES || base.len() >= 63 {
        return None;
    }
    let slot = &mut *std::ptr::addr_of_mut!(NAMES[n]);
    slot[..base.len()].copy_from_slice(base);
    slot[base.len()] = 0;
    NNAMES.store(n as u32 + 1, SeqCst);
    Some(n)
}

fn fd_file(fd: c_int) -> Option<usize> {
    if fd == 1 {
        return Some(0);
    }
    if fd < 0 || fd as usize >= MAX_FDS {
        return None;
    }
    match FD_FILE[fd as usize].load(SeqCst) {
        0 => None,
        k => Some(k as usize - 1),
    }
}

#[derive(Clone, Copy, PartialEq)]
enum Kind {
    Eintr,
    Eio,
    Enospc,
    Eacces,
    Short(usize),
}

/// Look up the plan for (op, file, call index).
unsafe fn planned(op: &[u8], file: usize, index: u32) -> Option<Kind> {
    let plan = env(b"VERIF_PLAN\0")?;
    let fname = file_name(file);
    for rule in plan.split(|&b| b == b',') {
        let mut it = rule.split(|&b| b == b':');
        let (Some(o), Some(f), Some(i), Some(k)) = (it.next(), it.next(), it.next(), it.next()) else { continue };
        if o != op || !(fname == f || (fname.len() > f.len() && fname.ends_with(f))) {
            continue;
        }
        if i != b"*" {
            let want: u32 = std::str::from_utf8(i).ok().and_then(|s| s.parse().ok())?;
            if want != index {
                continue;
            }
        }
        let arg: usize = it.next().and_then(|a| std::str::from_utf8(a).ok()).and_then(|s| s.parse().ok()).unwrap_or(1);
        return match k {
            b"EINTR" => Some(Kind::Eintr),
            b"EIO" => Some(Kind::Eio),
            b"ENOSPC" => Some(Kind::Enospc),
            b"EACCES" => Some(Kind::Eacces),
            b"SHORT" => Some(Kind::Short(arg.max(1))),
            _ => None,
        };
    }
    None
}

unsafe fn set_errno(e: c_int) {
    *libc::__errno_location() = e;
}

unsafe fn do_open(dirfd: c_int, path: *const c_char, flags: c_int, mode: mode_t) -> c_int {
    let tracked = tracked_index(path);
    if let Some(idx) = tracked {
        let acc = flags & libc::O_ACCMODE;
        let writing = acc != libc::O_RDONLY || flags & (libc::O_TRUNC | libc::O_CREAT) != 0;
        let (op, ctr): (&[u8], &AtomicU32) = if writing { (b"openw", &OPENW[idx]) } else { (b"openr", &OPENR[idx]) };
        let i = ctr.fetch_add(1, SeqCst);
        if let Some(k) = planned(op, idx, i) {
            let e = match k {
                Kind::Eacces => libc::EACCES,
                Kind::Eio => libc::EIO,
                Kind::Enospc => libc::ENOSPC,
                Kind::Eintr => libc::EINTR,
                Kind::Short(_) => 0,
            };
            if e != 0 {
                log(&[op, b" ", file_name(idx), b" FAULT ", if e == libc::EACCES { b"EACCES" } else { b"ERR" }]);
                set_errno(e);
                return -1;
            }
        }
        let fd = libc::syscall(libc::SYS_openat, dirfd, path, flags, mode as c_uint) as c_int;
        log(&[op, b" ", file_name(idx), if fd >= 0 { b" ok" } else { b" failed" }, if flags & libc::O_TRUNC != 0 { b" trunc" } else { b"" }]);
        if fd >= 0 && (fd as usize) < MAX_FDS {
            FD_FILE[fd as usize].store(idx as i32 + 1, SeqCst);
        }
        return fd;
    }
    libc::syscall(libc::SYS_openat, dirfd, path, flags, mode as c_uint) as c_int
}

#[no_mangle]
pub unsafe extern "C" fn open(path: *const c_char, flags: c_int, mode: mode_t) -> c_int {
    do_open(libc::AT_FDCWD, path, flags, mode)
}
#[no_mangle]
pub unsafe extern "C" fn open64(path: *const c_char, flags: c_int, mode: mode_t) -> c_int {
    do_open(libc::AT_FDCWD, path, flags, mode)
}
#[no_mangle]
pub unsafe extern "C" fn openat(dirfd: c_int, path: *const c_char, flags: c_int, mode: mode_t) -> c_int {
    do_open(dirfd, path, flags, mode)
}
#[no_mangle]
pub unsafe extern "C" fn openat64(dirfd: c_int, path: *const c_char, flags: c_int, mode: mode_t) -> c_int {
    do_open(dirfd, path, flags, mode)
}
#[no_mangle]
pub unsafe extern "C" fn creat(path: *const c_char, mode: mode_t) -> c_int {
    do_open(libc::AT_FDCWD, path, libc::O_CREAT | libc::O_WRONLY | libc::O_TRUNC, mode)
}

#[no_mangle]
pub unsafe extern "C" fn read(fd: c_int, buf: *mut c_void, n: size_t) -> ssize_t {
    if let Some(idx) = fd_file(fd).filter(|&i| i != 0) {
        let i = READS[idx].fetch_add(1, SeqCst);
        let mut nb = [0u8; 24];
        match planned(b"read", idx, i) {
            Some(Kind::Eintr) => {
                log(&[b"read ", file_name(idx), b" FAULT EINTR"]);
                set_errno(libc::EINTR);
                return -1;
            }
            Some(Kind::Eio) | Some(Kind::Enospc) | Some(Kind::Eacces) => {
                log(&[b"read ", file_name(idx), b" FAULT EIO"]);
                set_errno(libc::EIO);
                return -1;
            }
            Some(Kind::Short(k)) => {
                let k = k.min(n);
                let r = libc::syscall(libc::SYS_read, fd, buf, k) as ssize_t;
                log(&[b"read ", file_name(idx), b" SHORT ", num(r.max(0) as u64, &mut nb)]);
                return r;
            }
            None => {
                let r = libc::syscall(libc::SYS_read, fd, buf, n) as ssize_t;
                log(&[b"read ", file_name(idx), b" ", num(r.max(0) as u64, &mut nb)]);
                return r;
            }
        }
    }
    libc::syscall(libc::SYS_read, fd, buf, n) as ssize_t
}

#[no_mangle]
pub unsafe extern "C" fn write(fd: c_int, buf: *const c_void, n: size_t) -> ssize_t {
    if let Some(idx) = fd_file(fd) {
        // stdout is only under the plan's control when the plan names it (keeps ordinary runs untouched)
        let i = WRITES[idx].fetch_add(1, SeqCst);
        let mut nb = [0u8; 24];
        match planned(b"write", idx, i) {
            Some(Kind::Eintr) => {
                log(&[b"write ", file_name(idx), b" FAULT EINTR"]);
                set_errno(libc::EINTR);
                return -1;
            }
            Some(Kind::Eio) | Some(Kind::Eacces) => {
                log(&[b"write ", file_name(idx), b" FAULT EIO"]);
                set_errno(libc::EIO);
                return -1;
            }
            Some(Kind::Enospc) => {
                log(&[b"write ", file_name(idx), b" FAULT ENOSPC"]);
                set_errno(libc::ENOSPC);
                return -1;
            }
            Some(Kind::Short(k)) => {
                let k = k.min(n);
                let r = libc::syscall(libc::SYS_write, fd, buf, k) as ssize_t;
                log(&[b"write ", file_name(idx), b" SHORT ", num(r.max(0) as u64, &mut nb)]);
                return r;
            }
            None => {
                let r = libc::syscall(libc::SYS_write, fd, buf, n) as ssize_t;
                if idx != 0 {
                    log(&[b"write ", file_name(idx), b" ", num(r.max(0) as u64, &mut nb)]);
                }
                return r;
            }
        }
    }
    libc::syscall(libc::SYS_write, fd, buf, n) as ssize_t
}

#[no_mangle]
pub unsafe extern "C" fn close(fd: c_int) -> c_int {
    if fd >= 0 && (fd as usize) < MAX_FDS {
        let k = FD_FILE[fd as usize].swap(0, SeqCst);
        if k != 0 {
            log(&[b"close ", file_name(k as usize - 1)]);
        }
    }
    libc::syscall(libc::SYS_close, fd) as c_int
}

#[no_mangle]
pub unsafe extern "C" fn unlink(path: *const c_char) -> c_int {
    if let Some(idx) = tracked_index(path) {
        log(&[b"unlink ", file_name(idx)]);
    }
    libc::syscall(libc::SYS_unlinkat, libc::AT_FDCWD, path, 0) as c_int
}
#[no_mangle]
pub unsafe extern "C" fn unlinkat(dirfd: c_int, path: *const c_char, flags: c_int) -> c_int {
    if let Some(idx) = tracked_index(path) {
        log(&[b"unlink ", file_name(idx)]);
    }
    libc::syscall(libc::SYS_unlinkat, dirfd, path, flags) as c_int
}
#[no_mangle]
pub unsafe extern "C" fn rename(old: *const c_char, new: *const c_char) -> c_int {
    if let Some(idx) = tracked_index(old) {
        log(&[b"rename-from ", file_name(idx)]);
    }
    if let Some(idx) = tracked_index(new) {
        log(&[b"rename-to ", file_name(idx)]);
    }
    libc::syscall(libc::SYS_renameat2, libc::AT_FDCWD, old, libc::AT_FDCWD, new, 0) as c_int
}
#[no_mangle]
pub unsafe extern "C" fn renameat(od: c_int, old: *const c_char, nd: c_int, new: *const c_char) -> c_int {
    if let Some(idx) = tracked_index(old) {
        log(&[b"rename-from ", file_name(idx)]);
    }
    if let Some(idx) = tracked_index(new) {
        log(&[b"rename-to ", file_name(idx)]);
    }
    libc::syscall(libc::SYS_renameat2, od, old, nd, new, 0) as c_int
}
#[no_mangle]
pub unsafe extern "C" fn truncate(path: *const c_char, len: libc::off_t) -> c_int {
    if let Some(idx) = tracked_index(path) {
        log(&[b"truncate ", file_name(idx)]);
    }
    libc::syscall(libc::SYS_truncate, path, len) as c_int
}
#[no_mangle]
pub unsafe extern "C" fn ftruncate(fd: c_int, len: libc::off_t) -> c_int {
    if let Some(idx) = fd_file(fd).filter(|&i| i != 0) {
        log(&[b"truncate ", file_name(idx)]);
    }
    libc::syscall(libc::SYS_ftruncate, fd, len) as c_int
}

fn hexval(b: u8) -> Option<u8> {
    match b {
        b'0'..=b'9' => Some(b - b'0'),
        b'a'..=b'f' => Some(b - b'a' + 10),
        b'A'..=b'F' => Some(b - b'A' + 10),
        _ => None,
    }
}

static CLOCK_NOW: std::sync::atomic::AtomicU64 = std::sync::atomic::AtomicU64::new(0);

/// The clock of the child process: with VERIF_CLOCK_STEP_NS=<n> every read returns a time n ns after the previous one.
#[no_mangle]
pub unsafe extern "C" fn clock_gettime(clk: libc::clockid_t, ts: *mut libc::timespec) -> c_int {
    if let Some(v) = env(b"VERIF_CLOCK_STEP_NS\0") {
        let mut step: u64 = 0;
        for &b in v {
            if b.is_ascii_digit() { step = step.saturating_mul(10).saturating_add((b - b'0') as u64); }
        }
        if step > 0 && !ts.is_null() {
            let now = CLOCK_NOW.fetch_add(step, std::sync::atomic::Ordering::SeqCst).saturating_add(step);
            let t = 1_700_000_000_000_000_000u64.saturating_add(now);
            (*ts).tv_sec = (t / 1_000_000_000) as libc::time_t;
            (*ts).tv_nsec = (t % 1_000_000_000) as _;
            log(&[b"clock_gettime served"]);
            return 0;
        }
    }
    libc::syscall(libc::SYS_clock_gettime, clk, ts) as c_int
}

/// std's source of hash keys (and nothing else in logos-cli uses it).
#[no_mangle]
pub unsafe extern "C" fn getrandom(buf: *mut c_void, len: size_t, flags: c_uint) -> ssize_t {
    if let Some(h) = env(b"VERIF_HASH_SEED\0") {
        if h.len() >= 32 {
            let out = buf as *mut u8;
            for i in 0..len {
                let j = (i % 16) * 2;
                let (Some(a), Some(b)) = (hexval(h[j]), hexval(h[j + 1])) else { break };
                *out.add(i) = a << 4 | b;
            }
            log(&[b"getrandom served"]);
            return len as ssize_t;
        }
    }
    libc::syscall(libc::SYS_getrandom, buf, len, flags) as ssize_t
}
