//! hash-sim: deterministic simulation of the one source of run-to-run variation in
//! logos-codegen — SipHash keys of std's hash containers — property C16, thread leg.
//! See DESIGN.md section 4.4.
//!
//! The simulator owns the `getrandom` symbol std uses (once per thread) to key `RandomState`.
//! Every simulated thread/process is a fresh OS thread that is handed the 16 key bytes drawn for
//! it by the run's generator; `generate()` and `strip_attributes()` of the REAL logos-codegen are
//! run under k different key draws and their rendered output compared byte for byte.

#![allow(dead_code)]

use simcore::*;
use std::collections::{BTreeMap, BTreeSet, HashSet};

use defsrc::{all_definitions, Definition};

// ---------------------------------------------------------------------------------------------
// The seam: std's hash-key source
// ---------------------------------------------------------------------------------------------

simcore::define_hash_key_seam!();

#[derive(Clone, Debug)]
struct ThreadOut {
    gen: Result<String, String>,
    strip: Result<String, String>,
    canary: Vec<usize>,
    served: u32,
    clock_reads: u32,
}

/// One simulated thread: fresh OS thread, keys installed before anything else runs on it.
fn simulated_thread(src: &str, keys: [u8; 16]) -> ThreadOut {
    simulated_thread_clock(src, keys, 0)
}

/// As `simulated_thread`, on a machine whose clock advances `step_ns` with every read (0: the real clock).
fn simulated_thread_clock(src: &str, keys: [u8; 16], step_ns: u64) -> ThreadOut {
    let src = src.to_string();
    with_hash_keys_and_clock(keys, step_ns, move || {
        // canary: the first hash container of this thread; its iteration order is a function of
        // the keys alone and shows which keys this thread really got. (Taken before generate():
        // std derives later RandomStates from a per-thread counter.)
        let canary: HashSet<usize> = (0..8).collect();
        let canary: Vec<usize> = canary.into_iter().collect();
        let ts: proc_macro2::TokenStream = src.parse().expect("definition is not Rust");
        let ts2 = ts.clone();
        let gen = catch(move || logos_codegen::generate(ts).to_string());
        let strip = catch(move || logos_codegen::strip_attributes(ts2).to_string());
        ThreadOut { gen, strip, canary, served: seam_served_on_this_thread(), clock_reads: seam_clock_calls_on_this_thread() }
    })
}

// ---------------------------------------------------------------------------------------------
// One evaluation group: a definition under k key draws
// ---------------------------------------------------------------------------------------------

#[derive(Clone, Debug)]
struct Violation {
    oracle: &'static str,
    what: String,
    keys_a: [u8; 16],
    keys_b: [u8; 16],
    first_diff: usize,
    context_a: String,
    context_b: String,
}

fn first_diff(a: &str, b: &str) -> usize {
    a.bytes().zip(b.bytes()).position(|(x, y)| x != y).unwrap_or(a.len().min(b.len()))
}

fn ctx(s: &str, at: usize) -> String {
    let lo = at.saturating_sub(60);
    let hi = (at + 60).min(s.len());
    let mut lo2 = lo;
    while !s.is_char_boundary(lo2) { lo2 -= 1; }
    let mut hi2 = hi;
    while !s.is_char_boundary(hi2) { hi2 += 1; }
    s[lo2..hi2].to_string()
}

fn render(r: &Result<String, String>) -> String {
    match r {
        Ok(s) => s.clone(),
        Err(p) => format!("<<panic: {}>>", p),
    }
}

/// Compare the outputs of a definition under the given key draws. Returns per-draw outputs too.
fn check_definition(src: &str, draws: &[[u8; 16]]) -> (Vec<ThreadOut>, Option<Violation>) {
    let outs: Vec<ThreadOut> = draws.iter().map(|k| simulated_thread(src, *k)).collect();
    for i in 1..outs.len() {
        for (oracle, a, b) in [("D1-generate", render(&outs[0].gen), render(&outs[i].gen)), ("D1-strip", render(&outs[0].strip), render(&outs[i].strip))] {
            if a != b {
                let at = first_diff(&a, &b);
                let v = Violation {
                    oracle,
                    what: format!(
                        "{} output differs between two hash-key draws (first difference at byte {} of {} / {})",
                        if oracle == "D1-generate" { "generate()" } else { "strip_attributes()" }, at, a.len(), b.len()
                    ),
                    keys_a: draws[0], keys_b: draws[i], first_diff: at, context_a: ctx(&a, at), context_b: ctx(&b, at),
                };
                return (outs, Some(v));
            }
        }
    }
    // D7, clock: (after the key draws, so that a difference that has nothing to do with the clock is reported as what it is) the first key
    // draw again on machines whose clock jumps 1 ms / 1 min with every read
    for step in CLOCK_STEPS {
        let o = simulated_thread_clock(src, draws[0], *step);
        for (oracle, a, b) in [("D7-clock", render(&outs[0].gen), render(&o.gen)), ("D7-clock", render(&outs[0].strip), render(&o.strip))] {
            if a != b {
                let at = first_diff(&a, &b);
                let v = Violation {
                    oracle,
                    what: format!("the output differs between the real clock and a clock that advances {} ns per read ({} clock reads were made; first difference at byte {} of {} / {}): the output depends on elapsed time", step, o.clock_reads, at, a.len(), b.len()),
                    keys_a: draws[0], keys_b: draws[0], first_diff: at, context_a: ctx(&a, at), context_b: ctx(&b, at),
                };
                return (outs, Some(v));
            }
        }
        CLOCK_READS.fetch_add(o.clock_reads as u64, std::sync::atomic::Ordering::Relaxed);
    }
    (outs, None)
}

/// simulated clock steps (ns per read) of the D7 draws
const CLOCK_STEPS: &[u64] = &[1_000_000, 60_000_000_000];
static CLOCK_READS: std::sync::atomic::AtomicU64 = std::sync::atomic::AtomicU64::new(0);

fn reach(gen: &str) -> (usize, usize, usize, usize) {
    // (distinct states, fork tables, lookup tables, errors) estimated from the rendered text
    let mut states = BTreeSet::new();
    for (i, _) in gen.match_indices("state") {
        let digits: String = gen[i + 5..].chars().take_while(|c| c.is_ascii_digit()).collect();
        if !digits.is_empty() { states.insert(digits); }
    }
    for (i, _) in gen.match_indices("State") {
        let digits: String = gen[i + 5..].chars().take_while(|c| c.is_ascii_digit()).collect();
        if !digits.is_empty() { states.insert(digits); }
    }
    (states.len(), gen.matches("const TABLE").count(), gen.matches("_TABLE_").count(), gen.matches("compile_error").count())
}

fn signature(def: &Definition, v: &Violation) -> String {
    format!("C16/{}/{}", v.oracle, def.id)
}

fn replay_json(def: &Definition, v: &Violation, seed: u64, index: u64, minimised: bool) -> Value {
    json!({
        "format": 1, "property": "C16", "engine": "hash-sim", "leg": "thread", "oracle": v.oracle,
        "verif_seed": seed, "run_index": index, "minimised": minimised, "build": build_info!(),
        "definition": {"id": def.id, "origin": def.origin, "source": def.source},
        "key_draws": [to_hex(&v.keys_a), to_hex(&v.keys_b)],
        "violation": {"what": v.what, "signature": signature(def, v), "first_diff": v.first_diff, "context_a": v.context_a, "context_b": v.context_b},
    })
}

/// Delete variants of the enum while the two draws still disagree.
fn minimise(def: &Definition, v: &Violation) -> (Definition, Violation) {
    use quote::ToTokens;
    let mut best = def.clone();
    let mut bestv = v.clone();
    let Ok(mut item) = syn::parse_str::<syn::ItemEnum>(&def.source) else { return (best, bestv) };
    let draws = [v.keys_a, v.keys_b];
    let mut budget = 200;
    let mut i = 0;
    while i < item.variants.len() && budget > 0 {
        let mut cand = item.clone();
        let kept: Vec<syn::Variant> = cand.variants.iter().enumerate().filter(|(j, _)| *j != i).map(|(_, x)| x.clone()).collect();
        cand.variants = kept.into_iter().collect();
        let src = cand.to_token_stream().to_string();
        budget -= 1;
        let (_, w) = check_definition(&src, &draws);
        match w {
            Some(w) if w.oracle == v.oracle => {
                item = cand;
                best.source = src;
                bestv = w;
            }
            _ => i += 1,
        }
    }
    (best, bestv)
}

fn draws_for(seed: u64, index: u64, k: usize) -> Vec<[u8; 16]> {
    let mut rng = Rng::for_run(seed, "hash-sim/keys", index);
    let mut v: Vec<[u8; 16]> = (0..k).map(|_| rng.bytes16()).collect();
    // D0 (seam completeness): the first draw is repeated at the end — same keys must give the same output
    // and the same canary order even on a different OS thread
    v.push(v[0]);
    v
}

/// logos-codegen initialises three lazy statics on first use (two regexes, one table). Building them
/// creates hash containers, which advances std's per-thread RandomState counter on whichever thread
/// gets there first — that thread would then iterate its maps differently from every other thread
/// given the same keys. Initialise them on a throw-away thread first, so that every simulated thread
/// starts from the same state and a replay is exact.
fn warm_up() {
    let src = r#"#[derive(Logos)] #[logos(subpattern x = "a.")] enum W { #[regex("(?&x)+")] A, #[regex(".", priority = 0)] B }"#;
    let _ = simulated_thread(src, [0x5a; 16]);
}

// ---------------------------------------------------------------------------------------------
// History leg (D4): the sequence of generate() calls a process has made is a schedule dimension too.
// rustc expands every derive of a crate in one process, a proc-macro server lives for hours, a build
// script may generate several lexers: the output for a definition must not depend on what the same
// process generated before. A process-wide cache, counter or interner shows up as a difference between
// two processes that generate the same definitions in opposite orders under the same hash keys.
// ---------------------------------------------------------------------------------------------

/// `--history-child`: read {"keys": hex32, "sources": [..]} from stdin, generate every source in that order (each on a
/// fresh simulated thread with the same keys), print [[generate-fnv, strip-fnv], ..].
fn history_child() -> ! {
    use std::io::Read;
    let mut inp = String::new();
    std::io::stdin().read_to_string(&mut inp).expect("stdin");
    let v: Value = serde_json::from_str(&inp).expect("history-child: stdin is not JSON");
    let keys: [u8; 16] = v.get("keys").and_then(|k| k.as_str()).and_then(from_hex).and_then(|b| <[u8; 16]>::try_from(b).ok()).expect("history-child: keys");
    let mut out = Vec::new();
    for src in v.get("sources").and_then(|s| s.as_array()).expect("history-child: sources") {
        let o = simulated_thread(src.as_str().expect("source"), keys);
        let g = render(&o.gen);
        out.push(json!([format!("{:016x}", fnv1a(g.as_bytes())), format!("{:016x}", fnv1a(render(&o.strip).as_bytes())), g.len()]));
    }
    println!("{}", Value::Array(out));
    std::process::exit(0);
}

/// Run a fresh process that generates `sources` in order; returns per source (generate digest, strip digest).
fn run_history(sources: &[&str], keys: [u8; 16]) -> Vec<(String, String)> {
    use std::io::Write;
    let exe = std::env::current_exe().expect("current_exe");
    let mut child = std::process::Command::new(exe)
        .arg("--history-child")
        .stdin(std::process::Stdio::piped())
        .stdout(std::process::Stdio::piped())
        .stderr(std::process::Stdio::inherit())
        .spawn()
        .expect("spawn history child");
    let req = json!({"keys": to_hex(&keys), "sources": sources}).to_string();
    let mut stdin = child.stdin.take().unwrap();
    let writer = std::thread::spawn(move || { let _ = stdin.write_all(req.as_bytes()); });
    let out = child.wait_with_output().expect("history child");
    let _ = writer.join();
    if !out.status.success() {
        eprintln!("hash-sim: history child ended with {:?}", out.status);
        std::process::exit(2);
    }
    let v: Value = serde_json::from_slice(&out.stdout).expect("history child output");
    v.as_array().expect("array").iter().map(|p| (p[0].as_str().unwrap().to_string(), p[1].as_str().unwrap().to_string())).collect()
}

const HISTORY_KEYS: [u8; 16] = [0x3c; 16];

/// Does generating `history` and then `src` in one fresh process give another output for `src` than generating `src`
/// alone in a fresh process? Returns (differs, what differs).
fn history_differs(history: &[&str], src: &str) -> (bool, &'static str) {
    let mut seq: Vec<&str> = history.to_vec();
    seq.push(src);
    let with = run_history(&seq, HISTORY_KEYS);
    let alone = run_history(&[src], HISTORY_KEYS);
    let (a, b) = (with.last().unwrap(), &alone[0]);
    if a.0 != b.0 { (true, "generate()") } else if a.1 != b.1 { (true, "strip_attributes()") } else { (false, "") }
}

fn history_replay_json(def: &Definition, history: &[&Definition], what: &str, seed: u64, minimised: bool) -> Value {
    json!({
        "format": 1, "property": "C16", "engine": "hash-sim", "leg": "history", "oracle": "D4-history",
        "verif_seed": seed, "minimised": minimised, "build": build_info!(),
        "definition": {"id": def.id, "origin": def.origin, "source": def.source},
        "history": history.iter().map(|d| json!({"id": d.id, "source": d.source})).collect::<Vec<_>>(),
        "keys": to_hex(&HISTORY_KEYS),
        "violation": {"what": what, "signature": format!("C16/D4-history/{}", def.id)},
    })
}

/// `--history`: all definitions, generated sequentially in one fresh process in a seeded order and in another fresh
/// process in the reverse order (every pair of definitions is met in both orders), same hash keys throughout.
fn history_leg(defs: &[Definition], seed: u64, replay_dir: &str, tag: &str) -> Value {
    let mut order: Vec<usize> = (0..defs.len()).collect();
    let mut rng = Rng::for_run(seed, "hash-sim/history", 0);
    for i in (1..order.len()).rev() {
        let j = rng.below(i + 1);
        order.swap(i, j);
    }
    let fwd_src: Vec<&str> = order.iter().map(|&i| defs[i].source.as_str()).collect();
    let rev_src: Vec<&str> = order.iter().rev().map(|&i| defs[i].source.as_str()).collect();
    let fwd = run_history(&fwd_src, HISTORY_KEYS);
    let rev = run_history(&rev_src, HISTORY_KEYS);
    let n = order.len();
    let mut failures = Vec::new();
    let mut differing = 0u64;
    for (pos, &di) in order.iter().enumerate() {
        let (a, b) = (&fwd[pos], &rev[n - 1 - pos]);
        if a == b { continue; }
        differing += 1;
        if failures.len() >= 4 { continue; }
        let def = &defs[di];
        // which of the two histories changes the output with respect to a fresh process?
        let alone = run_history(&[def.source.as_str()], HISTORY_KEYS);
        let hist_idx: Vec<usize> = if *a != alone[0] { order[..pos].to_vec() } else { order[pos + 1..].iter().rev().cloned().collect() };
        let hist_src: Vec<&str> = hist_idx.iter().map(|&i| defs[i].source.as_str()).collect();
        let (differs, _) = history_differs(&hist_src, &def.source);
        if !differs {
            eprintln!("hash-sim: definition {} differed between the two orders but not against a fresh process: not reproducible", def.id);
            std::process::exit(2);
        }
        let mut budget: u32 = 40;
        let min_idx = ddmin(&hist_idx, &mut budget, |cand| {
            let srcs: Vec<&str> = cand.iter().map(|&i| defs[i].source.as_str()).collect();
            history_differs(&srcs, &def.source).0
        });
        let min_defs: Vec<&Definition> = min_idx.iter().map(|&i| &defs[i]).collect();
        let srcs: Vec<&str> = min_defs.iter().map(|d| d.source.as_str()).collect();
        let (_, which) = history_differs(&srcs, &def.source);
        let what = format!("{} output for this definition depends on what the same process generated before: after generating {} other definition(s) ({}) it differs from the output of a fresh process given the same hash keys",
            which, min_defs.len(), min_defs.iter().map(|d| d.id.as_str()).collect::<Vec<_>>().join(", "));
        let path = format!("{}/C16-{}-history-{}-{}.json", replay_dir, tag, seed, di);
        write_json(&path, &history_replay_json(def, &min_defs, &what, seed, true));
        failures.push(json!({"class": format!("D4-history/{}", def.id), "run_index": di, "signature": format!("C16/D4-history/{}", def.id), "what": what, "replay": path,
            "history_before": hist_idx.len(), "history_after": min_defs.len()}));
    }
    json!({
        "definitions": n, "generations": 2 * n, "definitions_whose_output_depends_on_history": differing,
        "orders": "one seeded permutation and its reverse, each in one fresh process, same hash keys",
        "failures": failures,
    })
}

fn main() {
    install_quiet_panic_hook();
    warm_up();
    if std::env::args().any(|a| a == "--history-child") {
        history_child();
    }
    let args = Args::parse();
    let out_path = args.get("out").map(|s| s.to_string());
    let repo = args.get("repo").unwrap_or("/repo").to_string();

    if let Some(path) = args.get("replay") {
        let v = read_json(path);
        if v.get("leg").and_then(|l| l.as_str()) == Some("history") {
            let (Some(src), Some(hist)) = (v.pointer("/definition/source").and_then(|s| s.as_str()), v.get("history").and_then(|h| h.as_array())) else {
                eprintln!("hash-sim: {path} is not a usable replay file");
                std::process::exit(2)
            };
            let hist_src: Vec<&str> = hist.iter().filter_map(|h| h.get("source").and_then(|s| s.as_str())).collect();
            let id = v.pointer("/definition/id").and_then(|s| s.as_str()).unwrap_or("?");
            let (differs, which) = history_differs(&hist_src, src);
            let result = if differs {
                json!({"reproduced": true, "signature": format!("C16/D4-history/{}", id), "what": format!("{} output depends on the {} definition(s) generated before in the same process", which, hist_src.len()), "oracle": "D4-history", "build": build_info!()})
            } else {
                json!({"reproduced": false, "build": build_info!()})
            };
            println!("{}", result);
            if let Some(p) = out_path { write_json(&p, &result); }
            std::process::exit(if differs { 1 } else { 0 });
        }
        let (Some(src), Some(keys)) = (v.pointer("/definition/source").and_then(|s| s.as_str()), v.get("key_draws").and_then(|k| k.as_array())) else {
            eprintln!("hash-sim: {path} is not a usable replay file");
            std::process::exit(2)
        };
        let draws: Vec<[u8; 16]> = keys.iter().filter_map(|k| from_hex(k.as_str()?)).filter_map(|b| <[u8; 16]>::try_from(b).ok()).collect();
        if draws.len() < 2 {
            eprintln!("hash-sim: replay file needs two key draws");
            std::process::exit(2);
        }
        let def = Definition { id: v.pointer("/definition/id").and_then(|s| s.as_str()).unwrap_or("?").to_string(), origin: "replay".into(), source: src.to_string() };
        let (_, w) = check_definition(&def.source, &draws);
        let result = match &w {
            Some(w) => json!({"reproduced": true, "signature": signature(&def, w), "what": w.what, "oracle": w.oracle, "build": build_info!()}),
            None => json!({"reproduced": false, "build": build_info!()}),
        };
        println!("{}", result);
        if let Some(p) = out_path { write_json(&p, &result); }
        std::process::exit(if w.is_some() { 1 } else { 0 });
    }

    let seed = args.num("seed", DEFAULT_SEED);
    let k = args.num("draws", 8) as usize;
    let n_random = args.num("random-defs", 120) as usize;
    let workers = args.num("workers", 16) as usize;
    let replay_dir = args.get("replay-dir").unwrap_or("/verif/replays").to_string();
    let tag = args.get("tag").unwrap_or("build").to_string();
    // `--runs` is accepted for protocol compatibility; the workload is definitions x draws
    let _ = args.num("runs", 0);

    if let Some(path) = args.get("digest") {
        // cross-build comparisons (run by ./check): print the digests of generate() / strip_attributes() of the definition
        // in a replay-like file under the recorded (or fixed) keys, as computed by THIS build
        let v = read_json(path);
        let Some(src) = v.pointer("/definition/source").and_then(|s| s.as_str()) else {
            eprintln!("hash-sim: {path} holds no definition");
            std::process::exit(2)
        };
        let o = simulated_thread(src, HISTORY_KEYS);
        let g = render(&o.gen);
        println!("{}", json!({"generate_fnv": format!("{:016x}", fnv1a(g.as_bytes())), "strip_fnv": format!("{:016x}", fnv1a(render(&o.strip).as_bytes())), "generate_len": g.len(), "build": build_info!()}));
        return;
    }
    if let Some(path) = args.get("emit-crate") {
        // derive leg (run by ./check): definitions that compile as they stand and that the code generator accepts
        let mut enums = Vec::new();
        for d in defsrc::compilable_definitions(seed, n_random) {
            let out = simulated_thread(&d.source, [1; 16]);
            if matches!(&out.gen, Ok(g) if !g.contains("compile_error")) {
                enums.push(json!({"id": d.id, "source": d.source}));
            }
        }
        write_json(path, &json!({"prelude": defsrc::COMPILABLE_PRELUDE, "enums": enums}));
        return;
    }
    let defs = all_definitions(&repo, seed, n_random);
    if let Some(id) = args.get("dump-json") {
        // the source text of one definition, for replay files written by ./check
        match (defs.iter().find(|d| d.id == id), &out_path) {
            (Some(d), Some(p)) => write_json(p, &json!({"id": d.id, "origin": d.origin, "source": d.source})),
            _ => { eprintln!("hash-sim: --dump-json needs a known definition id and --out"); std::process::exit(2) }
        }
        return;
    }
    if let Some(id) = args.get("dump") {
        // debugging aid: print one definition and the head of what generate() makes of it
        for d in defs.iter().filter(|d| d.id == id) {
            let out = simulated_thread(&d.source, [1; 16]);
            println!("{}\n---\n{}", d.source, render(&out.gen).chars().take(1500).collect::<String>());
        }
        return;
    }
    if defs.len() < 50 {
        eprintln!("hash-sim: only {} definitions found under {repo}", defs.len());
        std::process::exit(2);
    }
    if args.flag("history") || args.get("history").is_some() {
        let mut result = history_leg(&defs, seed, &replay_dir, &tag);
        result["engine"] = json!("hash-sim");
        result["leg"] = json!("history");
        result["seed"] = json!(seed);
        result["build"] = build_info!();
        result["tag"] = json!(tag);
        match out_path {
            Some(p) => write_json(&p, &result),
            None => println!("{:#}", result),
        }
        return;
    }

    // per definition facts, gathered in index order after the batch
    let facts: std::sync::Mutex<BTreeMap<u64, Value>> = std::sync::Mutex::new(BTreeMap::new());
    let batch = run_batch(defs.len() as u64, workers, (defs.len() as u64 / 4).max(1), |i, want_sample| {
        let def = &defs[i as usize];
        let draws = draws_for(seed, i, k);
        let (outs, viol) = check_definition(&def.source, &draws);
        let gen0 = render(&outs[0].gen);
        let (states, forks, luts, errors) = reach(&gen0);
        let order_sensitive = states >= 2 || errors >= 2 || luts >= 2;
        let canaries: BTreeSet<Vec<usize>> = outs.iter().map(|o| o.canary.clone()).collect();
        let mut counters: Vec<(&'static str, u64)> = vec![
            ("simulated_threads", outs.len() as u64),
            ("definitions_rejected_with_compile_error", (errors > 0) as u64),
            ("definitions_with_2plus_states", (states >= 2) as u64),
            ("definitions_with_fork_table", (forks >= 1) as u64),
            ("definitions_with_2plus_lookup_tables", (luts >= 2) as u64),
            ("definitions_with_2plus_errors", (errors >= 2) as u64),
            ("definitions_where_generate_panicked", outs[0].gen.is_err() as u64),
            ("threads_whose_keys_were_served_by_the_seam", outs.iter().filter(|o| o.served > 0).count() as u64),
        ];
        // D0: last draw repeats the first
        let last = outs.last().unwrap();
        let mut viol = viol;
        if viol.is_none() && (last.canary != outs[0].canary) {
            viol = Some(Violation {
                oracle: "D0-seam", what: "the same hash keys gave a different canary iteration order on another thread: a source of nondeterminism lies outside the seam".into(),
                keys_a: draws[0], keys_b: draws[0], first_diff: 0, context_a: format!("{:?}", outs[0].canary), context_b: format!("{:?}", last.canary),
            });
        }
        // non-trivial evaluations: (definition, draw) with an order-sensitive definition and a canary order that differs from the previous draw's
        let mut nontrivial_pairs = 0u64;
        for j in 1..outs.len() {
            if order_sensitive && outs[j].canary != outs[j - 1].canary {
                nontrivial_pairs += 1;
            }
        }
        counters.push(("nontrivial_definition_draw_pairs", nontrivial_pairs));
        counters.push(("distinct_canary_orders_within_definition", canaries.len() as u64));
        facts.lock().unwrap().insert(i, json!({
            "id": def.id, "origin": def.origin, "states": states, "fork_tables": forks, "lookup_tables": luts, "errors": errors,
            "output_fnv": format!("{:016x}", fnv1a(gen0.as_bytes())), "strip_fnv": format!("{:016x}", fnv1a(render(&outs[0].strip).as_bytes())),
            "output_len": gen0.len(),
        }));
        let sample = if want_sample {
            Some(json!({"definition": def.id, "origin": def.origin, "source": def.source.chars().take(600).collect::<String>(),
                        "key_draws": draws.iter().map(|d| to_hex(d)).collect::<Vec<_>>(),
                        "canary_orders": outs.iter().map(|o| format!("{:?}", o.canary)).collect::<Vec<_>>(),
                        "output_len": gen0.len(), "states": states, "errors": errors}))
        } else { None };
        let failure = viol.as_ref().map(|v| Failure { class: format!("{}/{}", v.oracle, def.id), what: v.what.clone(), replay: replay_json(def, v, seed, i, false) });
        RunReport {
            trace_hash: fnv1a(format!("{}|{}", def.source, to_hex(&draws.concat())).as_bytes()),
            nontrivial: nontrivial_pairs > 0,
            steps: outs.len() as u64,
            counters, sample, failure,
        }
    });

    let mut failures_json = Vec::new();
    let mut unstable = 0u64;
    let mut reps: Vec<(&String, &(u64, Failure))> = batch.failures.iter().collect();
    reps.sort_by_key(|(_, (i, _))| *i);
    for (class, (index, fail)) in reps.into_iter().take(8) {
        let def = &defs[*index as usize];
        let draws: Vec<[u8; 16]> = fail.replay["key_draws"].as_array().unwrap().iter().map(|k| <[u8; 16]>::try_from(from_hex(k.as_str().unwrap()).unwrap()).unwrap()).collect();
        let (_, v) = check_definition(&def.source, &draws);
        let Some(v) = v else {
            if class.starts_with("D0") {
                // D0 is about thread identity; report unminimised
                failures_json.push(json!({"class": class, "run_index": index, "signature": format!("C16/D0-seam/{}", def.id), "what": fail.what, "replay": ""}));
                continue;
            }
            // The batch runs definitions on 16 workers; state shared by the whole process (a cache, a flag, a counter)
            // makes an output depend on what other workers did before, which a sequential re-run cannot reproduce. Not
            // a verdict by itself: the history leg decides such cases deterministically; ./check treats a run whose only
            // divergences are of this kind, and whose history leg stays silent, as a harness error.
            eprintln!("hash-sim: definition {} diverged in the batch but not when re-run with the same keys: left to the history leg", def.id);
            unstable += 1;
            continue;
        };
        let (mdef, mv) = minimise(def, &v);
        let rj = replay_json(&mdef, &mv, seed, *index, true);
        let path = format!("{}/C16-{}-{}-{}.json", replay_dir, tag, seed, index);
        write_json(&path, &rj);
        failures_json.push(json!({"class": class, "run_index": index, "signature": signature(&mdef, &mv), "what": mv.what, "replay": path,
            "variants_before": def.source.matches("# [").count(), "source_len_before": def.source.len(), "source_len_after": mdef.source.len()}));
    }

    let facts = facts.into_inner().unwrap();
    let mut digest = String::new();
    for (_, f) in &facts {
        digest.push_str(f["output_fnv"].as_str().unwrap());
        digest.push_str(f["strip_fnv"].as_str().unwrap());
    }
    let mut result = batch.to_json();
    // evaluations are (definition, draw) pairs
    result["evaluations"] = json!(batch.counters.get("simulated_threads").cloned().unwrap_or(0));
    result["distinct_nontrivial"] = json!(batch.counters.get("nontrivial_definition_draw_pairs").cloned().unwrap_or(0));
    result["definitions"] = json!(defs.len());
    result["definitions_by_origin"] = json!({
        "repo": defs.iter().filter(|d| d.origin == "repo").count(),
        "corpus": defs.iter().filter(|d| d.origin == "corpus").count(),
        "random": defs.iter().filter(|d| d.origin == "random").count(),
        "diagnostic": defs.iter().filter(|d| d.origin == "diagnostic").count(),
    });
    result["draws_per_definition"] = json!(k);
    result["clock_draws_per_definition"] = json!(CLOCK_STEPS.len());
    result["clock_reads_served_by_the_seam"] = json!(CLOCK_READS.load(std::sync::atomic::Ordering::Relaxed));
    result["outputs_digest"] = json!(format!("{:016x}", fnv1a(digest.as_bytes())));
    result["engine"] = json!("hash-sim");
    result["seed"] = json!(seed);
    result["build"] = build_info!();
    result["tag"] = json!(tag);
    result["failures"] = json!(failures_json);
    result["failure_classes"] = json!(batch.failures.len());
    result["unstable_failure_classes"] = json!(unstable);
    result["per_definition"] = json!(facts.values().cloned().collect::<Vec<_>>());
    match out_path {
        Some(p) => write_json(&p, &result),
        None => println!("{:#}", result),
    }
}
