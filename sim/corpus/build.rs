// Turns `table.rs` into compiled lexers + oracle metadata. See table.rs.
use std::fmt::Write as _;

include!("table.rs");

fn payload(cb: Cb, utf8: bool) -> Option<&'static str> {
    match cb {
        Cb::Unit | Cb::Skip | Cb::SkipClosure | Cb::BoolShort => None,
        Cb::Len | Cb::FilterEven | Cb::OptOdd => Some("usize"),
        Cb::Borrow => Some(if utf8 { "&'s str" } else { "&'s [u8]" }),
    }
}

fn callback(cb: Cb) -> Option<&'static str> {
    match cb {
        Cb::Unit => None,
        Cb::Skip => Some("logos::skip"),
        Cb::SkipClosure => Some("|_| logos::Skip"),
        Cb::Len => Some("|lex| lex.slice().len()"),
        Cb::FilterEven => Some("|lex| { let n = lex.slice().len(); if n % 2 == 0 { logos::Filter::Skip } else { logos::Filter::Emit(n) } }"),
        Cb::OptOdd => Some("|lex| { let n = lex.slice().len(); if n % 2 == 1 { Some(n) } else { None } }"),
        Cb::BoolShort => Some("|lex| lex.slice().len() < 3"),
        Cb::Borrow => Some("|lex| lex.slice()"),
    }
}

pub fn enum_source(d: &D) -> String {
    let mut s = String::new();
    let lt = d.pats.iter().any(|p| p.cb == Cb::Borrow);
    s.push_str("#[derive(logos::Logos, Debug, Clone, PartialEq)]\n");
    if !d.utf8 {
        s.push_str("#[logos(utf8 = false)]\n");
    }
    let _ = writeln!(s, "pub enum {}{} {{", d.name, if lt { "<'s>" } else { "" });
    // several patterns may share a variant name only if declared so; here every pattern has its own
    for p in d.pats {
        let mut args = vec![p.lit.to_string()];
        if let Some(cb) = callback(p.cb) {
            args.push(cb.to_string());
        }
        args.push(format!("priority = {}", p.prio));
        if !p.extra.is_empty() {
            args.push(p.extra.to_string());
        }
        let _ = writeln!(s, "    #[{}({})]", p.attr, args.join(", "));
        match payload(p.cb, d.utf8) {
            Some(ty) => {
                let _ = writeln!(s, "    {}({}),", p.var, ty);
            }
            None => {
                let _ = writeln!(s, "    {},", p.var);
            }
        }
    }
    s.push_str("}\n");
    s
}

fn main() {
    println!("cargo:rerun-if-changed=table.rs");
    println!("cargo:rerun-if-changed=build.rs");
    let mut out = String::new();
    let mut infos = String::new();
    for d in TABLE {
        let src = enum_source(d);
        // sanity: the real code generator of /repo must accept every hand-written definition
        let ts: proc_macro2::TokenStream = src.parse().expect("table entry is not Rust");
        let gen = logos_codegen::generate(ts).to_string();
        if gen.contains("compile_error") {
            panic!("corpus definition {} is rejected by logos-codegen:\n{}\n{}", d.name, src, &gen[..gen.len().min(2000)]);
        }
        out.push_str(&src);
        let lt = d.pats.iter().any(|p| p.cb == Cb::Borrow);
        let ty = if lt { format!("{}<'_>", d.name) } else { d.name.to_string() };
        let srcty = if d.utf8 { "str" } else { "[u8]" };
        let _ = writeln!(
            out,
            "fn run_{n}(src: &{srcty}, partial: bool, start_at: usize, max_items: usize) -> LexOut {{ run_generic::<{ty}>(src, partial, start_at, max_items) }}\n",
            n = d.name
        );
        let _ = writeln!(infos, "    DefInfo {{ name: {:?}, utf8: {}, source: {:?}, run: Run::{}(run_{}), pats: &[", d.name, d.utf8, src, if d.utf8 { "Str" } else { "Bytes" }, d.name);
        for p in d.pats {
            let unicode = !p.lit.starts_with('b');
            let lit_bytes = if unicode { format!("{}.as_bytes()", p.lit) } else { p.lit.to_string() };
            let _ = writeln!(
                infos,
                "        PatInfo {{ is_token: {}, lit: {}, unicode: {}, ignore_case: {}, prio: {}, cb: CbKind::{:?}, var: {:?} }},",
                p.attr == "token", lit_bytes, unicode, p.extra.contains("ignore(case)"), p.prio, p.cb, p.var
            );
        }
        let _ = writeln!(infos, "    ], frags: &[");
        for f in d.frags {
            if let Some(hex) = f.strip_prefix("x:") {
                let bytes: Vec<String> = (0..hex.len() / 2).map(|i| format!("0x{}", &hex[2 * i..2 * i + 2])).collect();
                let _ = writeln!(infos, "        &[{}],", bytes.join(", "));
            } else {
                let _ = writeln!(infos, "        {:?}.as_bytes(),", f);
            }
        }
        let _ = writeln!(infos, "    ] }},");
    }
    let _ = writeln!(out, "pub static DEFS: &[DefInfo] = &[\n{}];", infos);
    let dir = std::env::var("OUT_DIR").unwrap();
    std::fs::write(format!("{dir}/generated.rs"), out).unwrap();
}
