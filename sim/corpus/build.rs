// Turns `table.rs` into compiled lexers + oracle metadata. See table.rs.
use std::fmt::Write as _;

use simcore::Rng;

include!("table.rs");
include!("gen.rs");

fn main() {
    println!("cargo:rerun-if-changed=table.rs");
    println!("cargo:rerun-if-changed=build.rs");
    println!("cargo:rerun-if-changed=gen.rs");
    println!("cargo:rerun-if-env-changed=VERIF_DEF_SEED");
    println!("cargo:rerun-if-env-changed=VERIF_RANDOM_DEFS");
    let mut out = String::new();
    let mut infos = String::new();
    let mut defs = table_defs();
    if std::env::var("CARGO_FEATURE_RANDOM_DEFS").is_ok() {
        // seeded random definitions (thorough tier): keep the ones the real code generator accepts
        let seed: u64 = std::env::var("VERIF_DEF_SEED").ok().and_then(|s| s.parse().ok()).unwrap_or(7);
        let want: usize = std::env::var("VERIF_RANDOM_DEFS").ok().and_then(|s| s.parse().ok()).unwrap_or(120);
        let mut k = 0u64;
        let mut kept = 0usize;
        while kept < want && k < 20 * want as u64 {
            let mut rng = Rng::for_run(seed, "random-def", k);
            let mut d = random_def(&mut rng, &format!("Rnd{}", k), false, k % 4 == 0);
            if k % 3 == 1 {
                // every third random definition is made stateful (no further draws: the definitions stay the same otherwise)
                for p in d.pats.iter_mut() {
                    p.cb = match p.cb { Cb::Skip | Cb::SkipClosure => Cb::CountSkip, Cb::Len => Cb::Seq, Cb::Unit if p.attr == "token" => Cb::Line, other => other };
                }
            }
            k += 1;
            let ts: proc_macro2::TokenStream = enum_source(&d).parse().expect("random definition is not Rust");
            let ok = std::panic::catch_unwind(|| logos_codegen::generate(ts).to_string()).map(|g| !g.contains("compile_error")).unwrap_or(false);
            if ok {
                defs.push(d);
                kept += 1;
            }
        }
    }
    for d in &defs {
        let src = enum_source(d);
        // sanity: the real code generator of /repo must accept every hand-written definition
        let ts: proc_macro2::TokenStream = src.parse().expect("table entry is not Rust");
        let gen = logos_codegen::generate(ts).to_string();
        if gen.contains("compile_error") {
            panic!("corpus definition {} is rejected by logos-codegen:\n{}\n{}", d.name, src, &gen[..gen.len().min(2000)]);
        }
        out.push_str(&src);
        let lt = d.pats.iter().any(|p| p.cb == Cb::Borrow);
        let ty = if lt { format!("{}<'_>", d.name) } else { d.name.to_string() };
        let srcty = if d.utf8 { "str" } else { "[u8]" };
        let _ = writeln!(
            out,
            "fn run_{n}(src: &{srcty}, partial: bool, with_extras: bool, start_at: usize, max_items: usize, extras_in: u64, ops: u8) -> LexOut {{ run_generic::<{ty}>(src, partial, with_extras, start_at, max_items, extras_in, ops) }}\n",
            n = d.name
        );
        let _ = writeln!(infos, "    DefInfo {{ name: {:?}, utf8: {}, stateful: {}, source: {:?}, run: Run::{}(run_{}), pats: &[", d.name, d.utf8, is_stateful(d), src, if d.utf8 { "Str" } else { "Bytes" }, d.name);
        for (lit, prio, extra) in &d.skips {
            let unicode = !lit.starts_with('b');
            let lit_bytes = if unicode { format!("{}.as_bytes()", lit) } else { lit.to_string() };
            let _ = writeln!(
                infos,
                "        PatInfo {{ is_token: false, lit: {}, unicode: {}, ignore_case: {}, prio: {}, cb: CbKind::Skip, var: \"<enum-level skip>\" }},",
                lit_bytes, unicode, extra.contains("ignore(case)"), prio
            );
        }
        for p in &d.pats {
            let unicode = !p.lit.starts_with('b');
            let lit_bytes = if unicode { format!("{}.as_bytes()", p.lit) } else { p.lit.to_string() };
            let _ = writeln!(
                infos,
                "        PatInfo {{ is_token: {}, lit: {}, unicode: {}, ignore_case: {}, prio: {}, cb: CbKind::{:?}, var: {:?} }},",
                p.attr == "token", lit_bytes, unicode, p.extra.contains("ignore(case)"), p.prio, p.cb, p.var
            );
        }
        let _ = writeln!(infos, "    ], frags: &[");
        for f in &d.frags {
            if let Some(hex) = f.strip_prefix("x:") {
                let bytes: Vec<String> = (0..hex.len() / 2).map(|i| format!("0x{}", &hex[2 * i..2 * i + 2])).collect();
                let _ = writeln!(infos, "        &[{}],", bytes.join(", "));
            } else {
                let _ = writeln!(infos, "        {:?}.as_bytes(),", f);
            }
        }
        let _ = writeln!(infos, "    ] }},");
    }
    let _ = writeln!(out, "pub static DEFS: &[DefInfo] = &[\n{}];", infos);
    let dir = std::env::var("OUT_DIR").unwrap();
    std::fs::write(format!("{dir}/generated.rs"), out).unwrap();
}
