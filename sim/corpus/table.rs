// Description table of the stream-sim corpus. Data only. `build.rs` turns every entry into
// (a) a `#[derive(Logos)]` enum compiled by the real derive of /repo and (b) the metadata the
// oracles need (pattern text, literal/regex, explicit priority, callback kind).
//
// Priorities are explicit everywhere so that nothing here depends on the default-priority rule
// (C09). Callbacks come from a fixed menu of pure functions of `slice()`; the oracle metadata
// carries the same function (`outcome`), so the reference lexer predicts Ok / Err / skip exactly.

#[derive(Clone, Copy, PartialEq, Debug)]
pub enum Cb {
    /// unit variant, no callback
    Unit,
    /// `logos::skip`
    Skip,
    /// closure returning `logos::Skip`
    SkipClosure,
    /// payload `usize` = `slice().len()`
    Len,
    /// `Filter`: skip matches of even length, emit `len` otherwise
    FilterEven,
    /// `Option`: `None` (=> default error) for matches of even length
    OptOdd,
    /// `bool`: false (=> default error) for matches of 3 bytes or more
    BoolShort,
    /// payload borrowed from the source (`&'s str` / `&'s [u8]`)
    Borrow,
    /// stateful (`extras = Ctr`): skip callback that advances the counter
    CountSkip,
    /// stateful: advances the counter and emits it (payload `u32`)
    Seq,
    /// stateful: emits the counter unchanged (payload `u32`)
    Line,
}

pub struct P {
    /// "token" or "regex"
    pub attr: &'static str,
    /// Rust source text of the literal, e.g. `r"[0-9]+"` or `b"\xCA\xFE"`
    pub lit: &'static str,
    pub prio: usize,
    pub cb: Cb,
    /// extra named arguments, e.g. `ignore(case)` or `allow_greedy = true`
    pub extra: &'static str,
    pub var: &'static str,
}

/// enum-level `#[logos(skip(..))]` pattern: (literal source text, priority, extra named arguments)
pub type S = (&'static str, usize, &'static str);

pub struct D {
    pub name: &'static str,
    pub utf8: bool,
    /// further enum-level `#[logos(..)]` arguments, one attribute each (e.g. an error type with a callback)
    pub attrs: &'static [&'static str],
    /// `#[logos(skip(..))]` attributes on the enum itself (no variant; a callback, if any, is part of the extra text)
    pub skips: &'static [S],
    pub pats: &'static [P],
    /// input fragments: tokens, proper prefixes of tokens, near misses (UTF-8 text or hex with `x:` prefix)
    pub frags: &'static [&'static str],
}

const fn t(lit: &'static str, prio: usize, var: &'static str) -> P {
    P { attr: "token", lit, prio, cb: Cb::Unit, extra: "", var }
}
const fn r(lit: &'static str, prio: usize, var: &'static str) -> P {
    P { attr: "regex", lit, prio, cb: Cb::Unit, extra: "", var }
}
const fn rc(lit: &'static str, prio: usize, cb: Cb, var: &'static str) -> P {
    P { attr: "regex", lit, prio, cb, extra: "", var }
}
const fn tc(lit: &'static str, prio: usize, cb: Cb, var: &'static str) -> P {
    P { attr: "token", lit, prio, cb, extra: "", var }
}
const fn rx(lit: &'static str, prio: usize, cb: Cb, extra: &'static str, var: &'static str) -> P {
    P { attr: "regex", lit, prio, cb, extra, var }
}
const fn tx(lit: &'static str, prio: usize, cb: Cb, extra: &'static str, var: &'static str) -> P {
    P { attr: "token", lit, prio, cb, extra, var }
}

pub const TABLE: &[D] = &[
    D { name: "Kw", utf8: true, attrs: &[], skips: &[], pats: &[
        t(r#""abc""#, 6, "Abc"), t(r#""abcd""#, 8, "Abcd"), r(r#""[a-d]+""#, 1, "Id"), rc(r#""[ ]+""#, 2, Cb::Skip, "Sp"),
    ], frags: &["abc", "abcd", "ab", " ", "  ", "abcda", "e", "d", "abce"] },

    D { name: "Num", utf8: true, attrs: &[], skips: &[], pats: &[
        r(r#""[0-9]+""#, 2, "Int"), r(r#"r"[0-9]+\.[0-9]+""#, 3, "Float"), r(r#"r"[0-9]+\.[0-9]+e[0-9]+""#, 4, "Exp"),
        t(r#"".""#, 2, "Dot"), t(r#""...""#, 6, "Ell"), rc(r#""[ ]""#, 2, Cb::Skip, "Sp"),
    ], frags: &["1", "12", "1.5", "1.5e3", ".", "..", "...", " ", "1.", "1.5e", "x", "....", "9.9e"] },

    D { name: "Uni", utf8: true, attrs: &[], skips: &[], pats: &[
        r(r#"r"\p{L}+""#, 2, "Word"), r(r#""[0-9]+""#, 2, "Int"), t(r#""é€""#, 10, "Special"), rc(r#"r"\s""#, 2, Cb::Skip, "Sp"),
    ], frags: &["é", "€", "é€", "ab", "1", " ", "\u{2003}", "ж", "𝔸", "-", "éé", "€€", "\u{FEFF}"] },

    D { name: "StrCom", utf8: true, attrs: &[], skips: &[], pats: &[
        r(r##"r#""([^"\\]|\\.)*""#"##, 4, "S"), rx(r#"r"//[^\n]*""#, 4, Cb::Unit, "allow_greedy = true", "LineComment"),
        r(r#"r"/\*([^*]|\*[^/])*\*/""#, 6, "Block"), t(r#""/""#, 2, "Slash"), r(r#""[a-z]+""#, 2, "Id"),
        rc(r#"r"[ \n]+""#, 2, Cb::Skip, "Sp"),
    ], frags: &["\"", "\\", "\"a\"", "//", "/*", "*/", "/", "a", "\n", " ", "*", "\"\\\"\"", "// x", "/* y */", "/**/", "\"é\"", "\u{FEFF}"] },

    D { name: "Look", utf8: true, attrs: &[], skips: &[], pats: &[
        r(r#"r"a|bc(?-u:\b)""#, 2, "L"), r(r#"r"x+$""#, 2, "XEnd"), r(r#"r"(?m)y+$""#, 2, "YEol"), t(r#""\n""#, 2, "Nl"),
        rc(r#""[ ]+""#, 2, Cb::Skip, "Sp"), r(r#""[xyz]""#, 1, "Single"), r(r#""q$""#, 2, "QEnd"), t(r#""r""#, 4, "R"),
    ], frags: &["a", "bc", "x", "xx", "y", "yy", "\n", " ", "z", "b", "bcx", "bc ", "q", "qr", "qq", "yy\n", "xx\n"] },

    // tests/tests/partial.rs
    D { name: "Dots", utf8: true, attrs: &[], skips: &[], pats: &[
        rc(r#"r" ""#, 2, Cb::SkipClosure, "Space"), t(r#"".""#, 2, "Accessor"), t(r#""...""#, 6, "Ellipsis"),
    ], frags: &[".", "..", "...", " ", ". ", ".. ", "...."] },

    // examples/json_reader.rs (same patterns; payload callbacks replaced by the menu)
    D { name: "Json", utf8: false, attrs: &[], skips: &[], pats: &[
        t(r#""false""#, 10, "False"), t(r#""true""#, 8, "True"), t(r#""{""#, 2, "BraceOpen"), t(r#""}""#, 2, "BraceClose"),
        t(r#""[""#, 2, "BracketOpen"), t(r#""]""#, 2, "BracketClose"), t(r#"":""#, 2, "Colon"), t(r#"",""#, 2, "Comma"),
        t(r#""null""#, 8, "Null"),
        rc(r#"r"-?(?:0|[1-9]\d*)(?:\.\d+)?(?:[eE][+-]?\d+)?""#, 3, Cb::Len, "Number"),
        rc(r##"r#""([^"\\\x00-\x1F]|\\(["\\bnfrt/]|u[a-fA-F0-9]{4}))*""#"##, 4, Cb::Borrow, "String"),
        rc(r#"r"[ \t\r\n\f]+""#, 2, Cb::Skip, "Ws"),
    ], frags: &["false", "true", "null", "{", "}", "[", "]", ":", ",", "0", "-1", "1.5", "1e5", "1.5E-3", "1.", "1e", "-", "\"a\"", "\"\\n\"",
               "\"\\u00e9\"", "\"\\u00", "\"", " ", "\n", "fals", "nul", "tru", "\"é\"", "x:ff", "x:c3", "x:efbbbf", "x:efbb"] },

    // literal of 9+ bytes: the 8-byte batch read path
    D { name: "LongLit", utf8: true, attrs: &[], skips: &[], pats: &[
        t(r#""functional""#, 20, "Functional"), t(r#""function""#, 16, "Function"), t(r#""fun""#, 6, "Fun"),
        r(r#""[a-z]+""#, 1, "Id"), rc(r#""[ \t]+""#, 2, Cb::Skip, "Ws"), t(r#""=================""#, 34, "Rule"), r(r#""=+""#, 1, "Eqs"),
    ], frags: &["functional", "function", "fun", "functiona", "functio", "fu", "f", " ", "x", "=================", "================", "=", "==", "functionalx"] },

    D { name: "Loops", utf8: true, attrs: &[], skips: &[], pats: &[
        r(r#""(ab)+c""#, 6, "Abc"), r(r#""(ab)+""#, 4, "Ab"), r(r#""a+""#, 2, "As"), r(r#""(a|b)*d""#, 5, "ABd"),
        r(r#""((xy)+z)+w""#, 4, "Nest"), r(r#""[xyzw]""#, 1, "One"),
    ], frags: &["ab", "abab", "ababc", "a", "aa", "b", "abd", "d", "c", "xyz", "xyzw", "xyxyz", "xyzxyzw", "x", "xy", "w", "aba"] },

    D { name: "Lazy", utf8: true, attrs: &[], skips: &[], pats: &[
        r(r#"r"<.*?>""#, 4, "Tag"), r(r#"r"\[[a-z]*?\]""#, 4, "Br"), r(r#""[a-z]+?""#, 1, "Id"), t(r#""<""#, 1, "Lt"), t(r#""[""#, 1, "Lb"),
        rc(r#""[ ]+""#, 2, Cb::Skip, "Sp"),
    ], frags: &["<", ">", "<a>", "<a", "<>", "[", "]", "[ab]", "[ab", "a", "ab", " ", "<a>>", "<é>"] },

    D { name: "BytesHi", utf8: false, attrs: &[], skips: &[], pats: &[
        r(r#"b"[\x80-\xBF]+""#, 2, "Cont"), t(r#"b"\xCA\xFE\xBE\xEF""#, 8, "CafeBeef"), t(r#"b"\xCA\xFE""#, 4, "Cafe"),
        r(r#"b"[a-z]+""#, 2, "Word"), t(r#"b"\x00""#, 2, "Zero"), r(r#"b"\xFF[\x00-\xFF]""#, 3, "Tagged"), r(r#"b"[\xC0-\xFE]""#, 1, "Lead"),
    ], frags: &["x:cafebeef", "x:cafe", "x:ca", "x:cafebe", "x:8090", "x:bf", "abc", "x:00", "x:ff01", "x:ff", "x:ffff", "x:c3", "x:10", "x:fe"] },

    // Unicode-aware patterns in byte mode: they never match invalid sequences
    D { name: "UniBytes", utf8: false, attrs: &[], skips: &[], pats: &[
        r(r#"r"\p{L}+""#, 2, "Word"), r(r#""[0-9]+""#, 2, "Int"), t(r#""é€""#, 10, "Special"), rc(r#"r"\s""#, 2, Cb::Skip, "Sp"),
        r(r#"b"[\x80-\xFF]""#, 1, "Byte"),
    ], frags: &["é", "€", "é€", "ab", "1", " ", "ж", "𝔸", "-", "x:c3", "x:e2", "x:e282", "x:f09d94", "x:a9", "x:ff", "x:c3a9", "x:e282ac", "x:efbbbf", "x:ef", "x:efbb"] },

    D { name: "Filt", utf8: true, attrs: &[], skips: &[], pats: &[
        rc(r#""[a-z]+""#, 2, Cb::FilterEven, "Word"), rc(r#""[0-9]+""#, 2, Cb::OptOdd, "Digits"), rc(r#""!+""#, 2, Cb::BoolShort, "Bangs"),
        rc(r#""[ ]+""#, 2, Cb::SkipClosure, "Sp"), tc(r#""()""#, 4, Cb::Len, "Unit"), t(r#""(""#, 2, "Open"),
    ], frags: &["a", "ab", "abc", "1", "12", "123", "!", "!!", "!!!", " ", "()", "(", ")", "ab12", "a!"] },

    D { name: "EndAnchor", utf8: true, attrs: &[], skips: &[], pats: &[
        r(r#"r"w+\z""#, 3, "WEnd"), r(r#""w+""#, 2, "W"), r(r#"r"end$""#, 8, "End"), r(r#""[a-z]""#, 1, "Ch"), rc(r#""[ ]""#, 2, Cb::Skip, "Sp"),
        r(r#"r"k(?m:$)""#, 3, "KEol"), t(r#""\n""#, 2, "Nl"),
    ], frags: &["w", "ww", "end", "en", "e", " ", "x", "endw", "wend", "k", "k\n", "kk", "\n"] },

    D { name: "WordB", utf8: true, attrs: &[], skips: &[], pats: &[
        r(r#"r"if(?-u:\b)""#, 6, "If"), r(r#"r"in(?-u:\b)""#, 6, "In"), r(r#""[a-z_]+""#, 2, "Id"), r(r#""[0-9]+""#, 2, "Int"),
        rc(r#""[ ]+""#, 2, Cb::Skip, "Sp"), t(r#""(""#, 2, "Open"), r(r#"r"-(?-u:\B)""#, 3, "Dash"), t(r#""-""#, 2, "Minus"),
    ], frags: &["if", "in", "i", "iff", "int", "if(", "if ", "x", "1", " ", "(", "-", "--", "-a", "- ", "if_"] },

    D { name: "CaseI", utf8: true, attrs: &[], skips: &[], pats: &[
        tx(r#""select""#, 12, Cb::Unit, "ignore(case)", "Select"), tx(r#""straße""#, 14, Cb::Unit, "ignore(case)", "Strasse"),
        rx(r#""[a-z]+""#, 1, Cb::Unit, "ignore(case)", "Id"), rc(r#""[ ]+""#, 2, Cb::Skip, "Sp"), r(r#"r"\p{Greek}+""#, 2, "Greek"),
    ], frags: &["select", "SELECT", "SeLeCt", "selec", "selectx", "straße", "STRASSE", "STRAßE", "Straß", " ", "αβ", "Ω", "ſ", "K", "sel"] },

    D { name: "Counted", utf8: true, attrs: &[], skips: &[], pats: &[
        r(r#""a{2,4}""#, 4, "A24"), r(r#""a{5}b""#, 12, "A5b"), r(r#""[ab]{3}c""#, 8, "Ab3c"), r(r#""[abc]""#, 1, "One"), r(r#""(ab){2,}""#, 7, "Ab2"),
    ], frags: &["a", "aa", "aaa", "aaaa", "aaaaa", "aaaaab", "b", "abc", "abac", "abab", "ababab", "c", "aab", "aabc"] },

    D { name: "Alt", utf8: true, attrs: &[], skips: &[], pats: &[
        r(r#""foo|foobar|foob""#, 6, "Foo"), t(r#""bar""#, 6, "Bar"), t(r#""ba""#, 4, "Ba"), r(r#""[a-z]""#, 1, "Ch"),
        r(r#""foobarbaz|fo""#, 5, "Fo"), rc(r#""[ ]""#, 2, Cb::Skip, "Sp"),
    ], frags: &["foo", "foob", "fooba", "foobar", "foobarba", "foobarbaz", "fo", "f", "bar", "ba", "b", " ", "x"] },

    // tests/tests/advanced.rs flavour
    D { name: "Adv", utf8: true, attrs: &[], skips: &[], pats: &[
        r(r#"r"[0-9]*\.[0-9]+([eE][+-]?[0-9]+)?|[0-9]+[eE][+-]?[0-9]+""#, 4, "Float"), r(r#""[0-9]+""#, 2, "Int"),
        r(r#""0[xX][0-9a-fA-F]+""#, 6, "Hex"), r(r#"r"[a-zA-Z_$][a-zA-Z0-9_$]*""#, 2, "Ident"), t(r#""+""#, 2, "Plus"), t(r#""-""#, 2, "Minus"),
        t(r#""..""#, 4, "DotDot"), t(r#"".""#, 2, "Dot"), rc(r#"r"[ \t\n\f]+""#, 2, Cb::Skip, "Ws"), t(r#""~~""#, 4, "What"),
        r(r#"r"~(?:~?[^~])*~""#, 3, "Sig"),
    ], frags: &["1", "1.", ".5", "1.5", "1e5", "1e", "1e+", "1e+5", "0x", "0xF", "0xfg", "a1", "$", "+", "-", ".", "..", "...", " ", "~", "~~", "~a~", "~~a~", "~a~~", "1..2"] },

    D { name: "Markup", utf8: true, attrs: &[], skips: &[], pats: &[
        r(r#"r"<!--([^-]|-[^-]|--[^>])*-->""#, 8, "Comment"), r(r#""<[a-z]+>""#, 6, "OpenTag"), t(r#""<""#, 2, "Lt"), r(r#""[^<]+""#, 1, "Text"),
    ], frags: &["<", "<!", "<!--", "<!-- x", "<!-- x -", "<!-- x --", "<!-- x -->", "<a>", "<ab", "text", "é", "-", "->", "-->", ">"] },

    D { name: "Emoji", utf8: true, attrs: &[], skips: &[], pats: &[
        r(r#"r"[\u{1F980}-\u{1F984}]+""#, 2, "Crabs"), t(r#""🦀🦀""#, 16, "TwoCrabs"), r(r#""[a-z]+""#, 2, "Word"), rc(r#""[ ]""#, 2, Cb::Skip, "Sp"),
        r(r#"r"[\u{80}-\u{7FF}]""#, 1, "TwoByte"), r(r#"r"\u{1F40D}x?""#, 3, "Snake"),
    ], frags: &["🦀", "🦀🦀", "🦀🦀🦀", "🦂", "a", " ", "é", "ж", "🐍", "🐍x", "€", "𝔸"] },

    D { name: "SkipHeavy", utf8: true, attrs: &[], skips: &[], pats: &[
        rc(r#"r"[ \t]+""#, 2, Cb::Skip, "Ws"), rx(r##"r"#[^\n]*""##, 3, Cb::Skip, "allow_greedy = true", "Comment"), t(r#""x""#, 2, "X"),
        t(r#""\n""#, 2, "Nl"), rc(r#"r"\\\n""#, 4, Cb::SkipClosure, "Cont"), t(r#""\\""#, 2, "Backslash"),
    ], frags: &[" ", "\t", "  ", "#", "# c", "# c\n", "x", "\n", "\\", "\\\n", "xx", " x "] },

    D { name: "RawBytes", utf8: false, attrs: &[], skips: &[], pats: &[
        r(r#"b"\x00+""#, 2, "Zeros"), t(r#"b"\x00\x01""#, 6, "ZeroOne"), r(r#"b"[\x01-\x05]{2,3}""#, 4, "Low"), r(r#"b"[\x01-\x09]""#, 1, "One"),
        rc(r#"b"\x20+""#, 2, Cb::Skip, "Sp"), r(r#"b"\xF0[\x90-\xBF][\x80-\xBF]{2}""#, 8, "FourByte"), r(r#"b"[\xE0-\xFF]""#, 1, "HiByte"),
    ], frags: &["x:00", "x:0000", "x:0001", "x:01", "x:0102", "x:010203", "x:01020304", "x:06", "x:20", "x:f0909080", "x:f09090", "x:f090", "x:f0", "x:ff", "x:0a"] },

    // enum-level skips without callbacks, one of them comment-like: an opener followed by a body whose bytes are
    // ordinary token bytes when lexed from the root
    D { name: "Ini", utf8: true, attrs: &[], skips: &[(r#"r"[ \t]+""#, 2, ""), (r##"r"#[ -~]*""##, 3, "")], pats: &[
        r(r#""[a-z]+""#, 2, "Key"), t(r#""=""#, 2, "Eq"), r(r#""[0-9]+""#, 2, "Num"), t(r#""\n""#, 2, "Nl"), r(r##"r#""[^"\n]*""#"##, 4, "Str"),
    ], frags: &["key", "=", "12", "\n", " ", "\t", "#", "# c", "# key = 1", "#a\n", "\"v\"", "\"", "k=v", "  "] },

    D { name: "BytesComment", utf8: false, attrs: &[], skips: &[(r#"r"(?-u)//[^\n]*""#, 4, "allow_greedy = true"), (r#"r"[ \n]+""#, 2, "")], pats: &[
        t(r#""/""#, 2, "Slash"), r(r#""[a-z]+""#, 2, "Word"), r(r#"b"[\x80-\xFF]+""#, 2, "High"), t(r#""*""#, 2, "Star"),
    ], frags: &["/", "//", "// ab", "// ab\n", "ab", " ", "\n", "*", "x:ff", "x:c3a9", "/ /", "//x:ff"] },

    // one leaf = a match-carrying repetition followed by a non-extendable optional ending (or an alternative that
    // cannot be extended): after the ending the token is final although the leaf's loop state is still "open"
    D { name: "OptTail", utf8: true, attrs: &[], skips: &[(r#"r"[ ]+""#, 2, "")], pats: &[
        r(r#""[0-9]+%?""#, 4, "Percent"), r(r#""[a-z]+!?""#, 3, "Word"), r(r#""x+|y""#, 6, "Xy"), r(r#""a+b?""#, 8, "Ab"),
        r(r##"r"#+;?""##, 5, "Hashes"), t(r#""%""#, 2, "Pct"), t(r#""!""#, 2, "Bang"), t(r#"";""#, 2, "Semi"),
    ], frags: &["12", "12%", "1%%", "ab", "a", "aab", "abb", "x", "xx", "y", "yy", "xy", "w!", "w!!", "#", "##;", "#;;", " ", "%", "!", ";"] },

    D { name: "Borrowed", utf8: true, attrs: &[], skips: &[], pats: &[
        rc(r#""[a-z]+""#, 2, Cb::Borrow, "Word"), rc(r#""[0-9]+""#, 2, Cb::Len, "Num"), tc(r#""::""#, 4, Cb::Borrow, "Path"), t(r#"":""#, 2, "Colon"),
        rc(r#"r"\s+""#, 2, Cb::Skip, "Ws"),
    ], frags: &["a", "abc", "1", "12", ":", "::", ":::", " ", "\n", "a:", "é"] },

    // long literals that no regex shadows: from the branching point on, their tails are chains of single-byte,
    // non-accepting, non-branching states (the code generator may batch them); prefixes of them lex to errors one-shot
    D { name: "Pem", utf8: true, attrs: &[], skips: &[(r#"r"[ \n]+""#, 2, "")], pats: &[
        t(r#""-----BEGIN-----""#, 30, "Begin"), t(r#""-----END-----""#, 26, "End"), t(r#""<![CDATA[""#, 18, "CData"), t(r#""]]>""#, 6, "CEnd"),
        r(r#""[0-9]+""#, 2, "Num"), t(r#""-""#, 2, "Dash"), t(r#""--""#, 4, "DashDash"), tx(r#""@interface""#, 20, Cb::Unit, "ignore(case)", "Iface"),
        r(r#""@[a-c]""#, 4, "At"), t(r#""0123456789abcdefghij""#, 40, "Alnum20"),
    ], frags: &["-----BEGIN-----", "-----END-----", "-----B", "-----BEGIN", "-----BEGIN----", "-----E", "-----", "--", "-", "<![CDATA[", "<![CDATA", "<![", "<", "]]>", "]]",
               "12", " ", "\n", "@interface", "@INTERFACE", "@inter", "@a", "@", "0123456789abcdefghij", "0123456789abcdefghi", "0123456789a", "01234567"] },

    D { name: "Magic", utf8: false, attrs: &[], skips: &[], pats: &[
        t(r#"b"\x89PNG\r\n\x1a\n""#, 16, "Png"), t(r#"b"\xff\xd8\xff\xe0\x00\x10JFIF\x00""#, 24, "Jfif"), t(r#"b"\xff\xd8""#, 4, "Soi"), t(r#"b"GIF89a""#, 12, "Gif"),
        r(r#"b"\x00+""#, 2, "Zeros"), t(r#"b"\xff""#, 2, "Ff"), t(r#"b"\x7fELF\x02\x01\x01\x00\x00\x00\x00\x00\x00\x00\x00\x00""#, 32, "Elf"), r(r#"b"[\x01-\x08]""#, 1, "Low"),
    ], frags: &["x:89504e470d0a1a0a", "x:89504e470d0a1a", "x:89504e47", "x:89", "x:ffd8ffe000104a46494600", "x:ffd8ffe000104a464946", "x:ffd8ffe0", "x:ffd8", "x:ff", "GIF89a", "GIF89", "GIF",
               "x:00", "x:0000", "x:7f454c46020101000000000000000000", "x:7f454c460201010000000000000000", "x:7f454c4602", "x:7f", "x:01", "x:41"] },

    // "rest of the input" tokens: a state whose only edge covers every byte and loops to itself (byte mode), its
    // Unicode counterpart, and a bounded variant; the token is never final before the real end of input
    D { name: "Trailer", utf8: false, attrs: &[], skips: &[(r#"r"[ \n]+""#, 2, "")], pats: &[
        rx(r#"b"(?s)__END__.*""#, 20, Cb::Unit, "allow_greedy = true", "Trailer"), r(r#"b"[a-z]+""#, 2, "Word"), t(r#"b"_""#, 2, "Under"),
        rx(r#"b"(?s-u)#!.*""#, 8, Cb::Len, "allow_greedy = true", "Shebang"), r(r#"b"(?s-u)@.{2}""#, 6, "At2"), t(r#"b"@""#, 2, "At"),
    ], frags: &["__END__", "__END__ x", "__END", "_", "__", "abc", " ", "\n", "#!", "#! /bin/sh\n", "#", "@", "@ab", "@a", "x:ff", "x:00", "__END__\nrest x:ff"] },

    D { name: "TrailerStr", utf8: true, attrs: &[], skips: &[(r#"r"[ \n]+""#, 2, "")], pats: &[
        rx(r#"r"(?s)__END__.*""#, 20, Cb::Unit, "allow_greedy = true", "Trailer"), r(r#""[a-z]+""#, 2, "Word"), t(r#""_""#, 2, "Under"),
        rx(r#"r"--[^\n]*""#, 6, Cb::Unit, "allow_greedy = true", "Comment"), t(r#""-""#, 2, "Dash"),
    ], frags: &["__END__", "__END__ x", "__END", "_", "__", "abc", " ", "\n", "--", "-- c", "-", "é", "__END__\né€"] },

    // ---- stateful definitions (`extras = Ctr`): a streaming consumer carries the counter from lexer to lexer; every
    // stateful callback must run exactly once per final match, whatever the chunking (oracle X1)
    D { name: "Lines", utf8: true, attrs: &[], skips: &[(r#"r"[ \t]+""#, 2, "")], pats: &[
        rc(r#""\n""#, 2, Cb::CountSkip, "Nl"), rc(r#""[a-z]+""#, 2, Cb::Seq, "Word"), rc(r#""[0-9]+""#, 2, Cb::Line, "Num"),
        rx(r#"r"//[^\n]*""#, 4, Cb::CountSkip, "allow_greedy = true", "Comment"), t(r#""=""#, 2, "Eq"), t(r#""==""#, 4, "EqEq"),
        rc(r#"r"\r\n""#, 4, Cb::CountSkip, "CrLf"), t(r#""\r""#, 2, "Cr"),
    ], frags: &["a", "ab", "1", "12", "\n", "\n\n", " ", "\t", "=", "==", "//", "// c", "// c\n", "\r", "\r\n", "a\nb", "a \n 1", "x=1\n"] },

    D { name: "StatefulBytes", utf8: false, attrs: &[r#"error(u32, callback = |lex| { lex.extras.n += 100; lex.extras.n })"#],
      skips: &[(r#"r"[ ]+""#, 2, "callback = |lex| { lex.extras.n += 1; }"), (r#"r"(?-u)#[^\n]*\n""#, 4, "allow_greedy = true, callback = |lex| { lex.extras.n += 7; }")], pats: &[
        rc(r#"b"[a-z]+""#, 2, Cb::Seq, "Word"), rc(r#"b"[\x80-\xFF]{2}""#, 2, Cb::Line, "Pair"), tc(r#"b"\x00""#, 2, Cb::Seq, "Zero"),
        rc(r#"b"[0-9]+""#, 2, Cb::OptOdd, "Digits"), t(r#"b"\n""#, 2, "Nl"), tc(r#"b"abcdefghij""#, 20, Cb::Line, "Long"),
    ], frags: &["a", "ab", " ", "  ", "#", "# x", "# x\n", "\n", "1", "12", "x:00", "x:ff", "x:ffff", "x:c3a9", "abcdefghij", "abcdefghi", "!", "!!", "a 1"] },

    D { name: "SeqLook", utf8: true, attrs: &[r#"error(u32, callback = |lex| { lex.extras.n += 1; lex.extras.n })"#],
      skips: &[(r#"r"[ ]+""#, 2, "")], pats: &[
        rc(r#"r"if(?-u:\b)""#, 6, Cb::Seq, "If"), rc(r#""[a-z]+""#, 2, Cb::Seq, "Id"), rc(r#"r"[0-9]+$""#, 4, Cb::Seq, "NumEnd"), rc(r#""[0-9]+""#, 2, Cb::Line, "Num"),
        rc(r#"r"\n+""#, 2, Cb::CountSkip, "Nls"), rc(r#"";+""#, 2, Cb::FilterEven, "Semis"), rc(r#""é+""#, 2, Cb::Seq, "Es"),
    ], frags: &["if", "iff", "i", "if ", "a", "1", "12", "\n", "\n\n", " ", ";", ";;", ";;;", "é", "éé", "!", "1\n", "if1"] },
];
