// Shared between corpus/build.rs (compile time) and hash-sim (run time): owned definition
// descriptions, rendering to `#[derive(Logos)]` source text, and the seeded random definition
// generator. Included with `include!`, so no `mod`/`use` of crate-local paths here.

#[derive(Clone, Debug)]
pub struct Pat {
    pub attr: String,
    pub lit: String,
    pub prio: usize,
    pub cb: Cb,
    pub extra: String,
    pub var: String,
}

#[derive(Clone, Debug)]
pub struct Def {
    pub name: String,
    pub utf8: bool,
    /// further enum-level `#[logos(..)]` arguments
    pub attrs: Vec<String>,
    /// enum-level skips: (literal, priority, extra)
    pub skips: Vec<(String, usize, String)>,
    pub pats: Vec<Pat>,
    pub frags: Vec<String>,
}

pub fn table_defs() -> Vec<Def> {
    TABLE
        .iter()
        .map(|d| Def {
            name: d.name.to_string(),
            utf8: d.utf8,
            attrs: d.attrs.iter().map(|a| a.to_string()).collect(),
            skips: d.skips.iter().map(|(l, p, e)| (l.to_string(), *p, e.to_string())).collect(),
            pats: d
                .pats
                .iter()
                .map(|p| Pat { attr: p.attr.to_string(), lit: p.lit.to_string(), prio: p.prio, cb: p.cb, extra: p.extra.to_string(), var: p.var.to_string() })
                .collect(),
            frags: d.frags.iter().map(|s| s.to_string()).collect(),
        })
        .collect()
}

pub fn payload(cb: Cb, utf8: bool) -> Option<&'static str> {
    match cb {
        Cb::Unit | Cb::Skip | Cb::SkipClosure | Cb::BoolShort => None,
        Cb::Len | Cb::FilterEven | Cb::OptOdd => Some("usize"),
        Cb::Borrow => Some(if utf8 { "&'s str" } else { "&'s [u8]" }),
        Cb::CountSkip => None,
        Cb::Seq | Cb::Line => Some("u32"),
    }
}

pub fn callback(cb: Cb) -> Option<&'static str> {
    match cb {
        Cb::Unit => None,
        Cb::Skip => Some("logos::skip"),
        Cb::SkipClosure => Some("|_| logos::Skip"),
        Cb::Len => Some("|lex| lex.slice().len()"),
        Cb::FilterEven => Some("|lex| { let n = lex.slice().len(); if n % 2 == 0 { logos::Filter::Skip } else { logos::Filter::Emit(n) } }"),
        Cb::OptOdd => Some("|lex| { let n = lex.slice().len(); if n % 2 == 1 { Some(n) } else { None } }"),
        Cb::BoolShort => Some("|lex| lex.slice().len() < 3"),
        Cb::Borrow => Some("|lex| lex.slice()"),
        Cb::CountSkip => Some("|lex| { lex.extras.n += 1; logos::Skip }"),
        Cb::Seq => Some("|lex| { lex.extras.n += 1; lex.extras.n }"),
        Cb::Line => Some("|lex| lex.extras.n"),
    }
}

/// The definition reads or advances the `Ctr` extras.
pub fn is_stateful(d: &Def) -> bool {
    d.pats.iter().any(|p| matches!(p.cb, Cb::CountSkip | Cb::Seq | Cb::Line))
        || d.attrs.iter().any(|a| a.contains("extras"))
        || d.skips.iter().any(|(_, _, e)| e.contains("extras"))
}

pub fn enum_source(d: &Def) -> String {
    use std::fmt::Write as _;
    let mut s = String::new();
    let lt = d.pats.iter().any(|p| p.cb == Cb::Borrow);
    s.push_str("#[derive(logos::Logos, Debug, Clone, PartialEq)]\n");
    if !d.utf8 {
        s.push_str("#[logos(utf8 = false)]\n");
    }
    if is_stateful(d) {
        s.push_str("#[logos(extras = Ctr)]\n");
    }
    for a in &d.attrs {
        let _ = writeln!(s, "#[logos({})]", a);
    }
    for (lit, prio, extra) in &d.skips {
        let _ = writeln!(s, "#[logos(skip({}, priority = {}{}))]", lit, prio, if extra.is_empty() { String::new() } else { format!(", {}", extra) });
    }
    let _ = writeln!(s, "pub enum {}{} {{", d.name, if lt { "<'s>" } else { "" });
    for p in &d.pats {
        let mut args = vec![p.lit.to_string()];
        if let Some(cb) = callback(p.cb) {
            args.push(cb.to_string());
        }
        args.push(format!("priority = {}", p.prio));
        if !p.extra.is_empty() {
            args.push(p.extra.to_string());
        }
        let _ = writeln!(s, "    #[{}({})]", p.attr, args.join(", "));
        match payload(p.cb, d.utf8) {
            Some(ty) => {
                let _ = writeln!(s, "    {}({}),", p.var, ty);
            }
            None => {
                let _ = writeln!(s, "    {},", p.var);
            }
        }
    }
    s.push_str("}\n");
    s
}

// ---- seeded random definitions ---------------------------------------------------------------

const ALPHA: &[&str] = &["a", "b", "c", "0", "1", " ", "é", "€"];

fn rx_atom(rng: &mut Rng) -> String {
    match rng.below(12) {
        0..=4 => ALPHA[rng.below(ALPHA.len())].to_string(),
        5 => "[ab]".into(),
        6 => "[a-c]".into(),
        7 => "[01]".into(),
        8 => "[a-c01é]".into(),
        9 => "[^a ]".into(),
        10 => "[b-c0€]".into(),
        _ => "(?:ab|c)".into(),
    }
}

fn rx_piece(rng: &mut Rng) -> String {
    let a = rx_atom(rng);
    match rng.below(10) {
        0..=4 => a,
        5 => format!("{a}+"),
        6 => format!("{a}*"),
        7 => format!("{a}?"),
        8 => format!("{a}{{2,3}}"),
        _ => format!("{a}+?"),
    }
}

fn rx_concat(rng: &mut Rng) -> String {
    // a mandatory atom first so that the empty string never matches
    let mut s = rx_atom(rng);
    for _ in 0..rng.below(4) {
        s.push_str(&rx_piece(rng));
    }
    s
}

pub fn random_regex(rng: &mut Rng, allow_look: bool) -> String {
    let n = 1 + rng.below(3).min(rng.below(3));
    let alts: Vec<String> = (0..n).map(|_| rx_concat(rng)).collect();
    let mut s = if alts.len() == 1 { alts[0].clone() } else { format!("(?:{})", alts.join("|")) };
    if allow_look && rng.chance(1, 6) {
        s.push_str(*rng.pick(&["$", r"(?-u:\b)", r"\z", "(?m:$)"]));
    }
    s
}

const VOCAB: &[&str] = &[
    "a", "ab", "abc", "abca", "b", "ba", "bab", "c", "ca", "cab", "0", "01", "010", "1", "10", "é", "é€", "€", "a0", "a1", "b0", "c1", "aa", "bb", "cc",
    "abcabcabc", "0101010101", "ca b", "a b",
];

/// A definition that the derive rejects with SEVERAL related priority conflicts: a family of patterns
/// with nested languages over one character, all at the same priority, so that different DFA states
/// tie different (nested, overlapping or disjoint) subsets of them. Exercises the error-collection and
/// error-rendering path with many entries.
pub fn conflict_family_def(rng: &mut Rng, name: &str) -> Def {
    let mut pats: Vec<Pat> = Vec::new();
    let nfam = rng.range(1, 3);
    let mut v = 0;
    for f in 0..nfam {
        let c = ["a", "b", "0", "c"][f % 4];
        let d = ["x", "y", "1", "z"][f % 4];
        let prio = rng.range(1, 6);
        let family = [
            format!("{c}"), format!("{c}+"), format!("[{c}{d}]+"), format!("{c}{{2,}}"), format!("{c}{c}"), format!("({c}|{d})+"),
            format!("{c}{d}?"), format!("{c}+{d}"), format!("[{c}{d}]{{1,3}}"), format!("{c}*{d}"),
        ];
        let n = rng.range(3, 6);
        let mut idx: Vec<usize> = (0..family.len()).collect();
        for _ in 0..n {
            if idx.is_empty() { break; }
            let k = idx.remove(rng.below(idx.len()));
            let as_token = (k == 0 || k == 4) && rng.chance(1, 2);
            let lit = if as_token { format!("{:?}", family[k].replace('+', "")) } else { format!("r\"{}\"", family[k]) };
            pats.push(Pat { attr: if as_token { "token".into() } else { "regex".into() }, lit, prio: if rng.chance(1, 6) { prio + 1 } else { prio }, cb: Cb::Unit, extra: String::new(), var: format!("V{}", v) });
            v += 1;
        }
    }
    // occasionally exact duplicates
    if rng.chance(1, 3) && !pats.is_empty() {
        let mut dup = pats[rng.below(pats.len())].clone();
        dup.var = format!("V{}", v);
        pats.push(dup);
    }
    let frags = VOCAB.iter().map(|s| s.to_string()).collect();
    Def { name: name.to_string(), utf8: true, attrs: Vec::new(), skips: Vec::new(), pats, frags }
}

/// A random definition. `conflicts`: allow equal priorities (the derive may then reject it).
pub fn random_def(rng: &mut Rng, name: &str, conflicts: bool, many_tokens: bool) -> Def {
    let utf8 = !rng.chance(1, 5);
    let mut pats: Vec<Pat> = Vec::new();
    let mut used_lits: Vec<String> = Vec::new();
    let npats = if many_tokens { rng.range(8, 26) } else { rng.range(2, 9) };
    let look = rng.chance(1, 3);
    let mut prios: Vec<usize> = (1..=40).collect();
    for i in 0..npats {
        let is_token = if many_tokens { rng.chance(3, 4) } else { rng.chance(1, 3) };
        let (attr, lit) = if is_token {
            let w = VOCAB[rng.below(VOCAB.len())];
            ("token", format!("{:?}", w))
        } else {
            ("regex", format!("r\"{}\"", random_regex(rng, look)))
        };
        if used_lits.contains(&lit) {
            continue;
        }
        used_lits.push(lit.clone());
        let prio = if conflicts && rng.chance(1, 3) {
            rng.range(1, 4)
        } else {
            let k = rng.below(prios.len());
            prios.remove(k)
        };
        let cb = if attr == "regex" {
            match rng.below(12) {
                0 | 1 => Cb::Skip,
                2 => Cb::SkipClosure,
                3 => Cb::Len,
                4 => Cb::FilterEven,
                5 => Cb::OptOdd,
                6 => Cb::BoolShort,
                _ => Cb::Unit,
            }
        } else {
            match rng.below(8) {
                0 => Cb::Len,
                _ => Cb::Unit,
            }
        };
        let extra = if rng.chance(1, 12) { "ignore(case)".to_string() } else { String::new() };
        pats.push(Pat { attr: attr.to_string(), lit, prio, cb, extra, var: format!("V{}", i) });
    }
    if pats.is_empty() {
        pats.push(Pat { attr: "token".into(), lit: "\"a\"".into(), prio: 2, cb: Cb::Unit, extra: String::new(), var: "V0".into() });
    }
    let frags = VOCAB.iter().map(|s| s.to_string()).chain(ALPHA.iter().map(|s| s.to_string())).collect();
    // some callback-free skip regexes become enum-level `#[logos(skip(..))]` attributes
    let mut skips = Vec::new();
    let mut kept = Vec::new();
    for p in pats {
        // (not with `ignore(case)`: logos accepts that flag on an enum-level skip but does not apply it — a C10 matter;
        // C07 does not quantify over it, and the reference model would describe a different language)
        if p.cb == Cb::Skip && p.attr == "regex" && p.extra.is_empty() && rng.chance(1, 2) {
            skips.push((p.lit, p.prio, p.extra));
        } else {
            kept.push(p);
        }
    }
    if kept.is_empty() {
        kept.push(Pat { attr: "token".into(), lit: "\"a\"".into(), prio: 41, cb: Cb::Unit, extra: String::new(), var: "V0".into() });
    }
    Def { name: name.to_string(), utf8, attrs: Vec::new(), skips, pats: kept, frags }
}


/// Enum-level attributes that make the derive emit a diagnostic (one distinct message site each).
pub const ENUM_DIAGNOSTICS: &[&str] = &[
    "#[logos]", "#[logos(frobnicate)]", "#[logos(frobnicate = 1)]", "#[logos(crate)]", "#[logos(crate = 5)]",
    "#[logos(error = DupA)]\n#[logos(error = DupB)]", "#[logos(error())]", "#[logos(error)]", "#[logos(error(E, 5))]", "#[logos(error(E, callback = f, callback = g))]",
    "#[logos(error(E, frob = 1))]", "#[logos(extras)]", "#[logos(extras = XA)]\n#[logos(extras = XB)]", "#[logos(subpattern)]", "#[logos(subpattern lonely)]",
    "#[logos(subpattern dup = \"a\")]\n#[logos(subpattern dup = \"b\")]", "#[logos(subpattern bad = \"(\")]", "#[logos(subpattern five = 5)]",
    "#[logos(type T)]", "#[logos(type Undeclared = u8)]", "#[logos(utf8 = 5)]", "#[logos(utf8 = true)]\n#[logos(utf8 = false)]", "#[logos(utf8)]",
    "#[logos(lifetime = 'x)]\n#[logos(lifetime = 'y)]", "#[logos(lifetime = 5)]", "#[logos(lifetime)]", "#[logos(skip)]", "#[logos(skip(5))]", "#[logos(skip \"a*\")]",
    "#[logos(skip(\"z\", priority = 1, priority = 2))]", "#[logos(skip(\"(\"))]", "#[logos(export_dir = 5)]", "#[logos(export_dir)]", "#[logos(skip \"(?&nowhere)\")]",
    // values that are not a path / a type where one is expected (the derive splices them into the implementation)
    "#[logos(crate = \"x\")]", "#[logos(error = 5)]", "#[logos(extras = 5)]", "#[logos(extras = a b)]", "#[logos(error = fn)]", "#[logos(crate = a b)]",
    "#[logos(error = \"E\")]", "#[logos(extras = -1)]",
];

/// Variant-level attributes that make the derive emit a diagnostic; each gets a unit variant of its own.
pub const VARIANT_DIAGNOSTICS: &[&str] = &[
    "#[error]", "#[token]", "#[regex]", "#[token(5)]", "#[regex(5)]", "#[token()]", "#[token(\"p1\", priority = \"x\")]", "#[token(\"p2\", priority = 1, priority = 2)]",
    "#[token(\"p3\", priority)]", "#[token(\"c1\", callback = 5)]", "#[token(\"c2\", first_cb, callback = second_cb)]", "#[token(\"c3\", callback)]", "#[token(\"c4\", |lex|)]",
    "#[regex(\"i1\", ignore(frob))]", "#[regex(\"i2\", ignore)]", "#[regex(\"i3\", ignore(case, ascii_case))]", "#[regex(\"g1.*\", allow_greedy = 3)]",
    "#[regex(\"g2\", allow_greedy = true, allow_greedy = false)]", "#[regex(\"g3\", allow_greedy)]", "#[regex(\"u1\", frobnicate = 1)]", "#[regex(\"u2\", 1 + 1)]",
    "#[regex(\"(\")]", "#[regex(\"[z-a]\")]", "#[regex(\"x{2,1}\")]", "#[regex(\"(?<=a)b\")]", "#[regex(\"\\\\b\")]", "#[regex(\"q*\")]", "#[regex(\"(?&missing_one)(?&missing_two)\")]",
    "#[token(\"\")]", "#[regex(\"\")]", "#[logos(skip)]", "#[logos(priority = 3)]", "#[token(b\"\\xff\")]", "#[regex(\".+\")]", "#[regex(\"[^\\n]*x\")]",
];

/// Source text of a "rich" random definition for the compiler-side engines (hash-sim, cli-sim), which only run the code
/// generator and never compile its output: subpatterns, custom error types with callbacks, extras, `crate = ..`, lifetimes
/// and type parameters, named and closure callbacks, several attributes per variant, enum-level skips with callbacks.
pub fn rich_def_source(rng: &mut Rng, name: &str) -> String {
    use std::fmt::Write as _;
    let mut s = String::new();
    let utf8 = !rng.chance(1, 6);
    let lifetime = rng.chance(1, 3);
    let generic = rng.chance(1, 8);
    s.push_str("#[derive(Logos, Debug, Clone, PartialEq)]\n");
    if !utf8 {
        s.push_str("#[logos(utf8 = false)]\n");
    }
    match rng.below(5) {
        0 => s.push_str("#[logos(error = LexingError)]\n"),
        1 => s.push_str("#[logos(error(LexingError, LexingError::unrecognised))]\n"),
        2 => s.push_str("#[logos(error(&'static str, callback = |lex| { lex.extras.count += 1; \"bad\" }))]\n"),
        _ => {}
    }
    if rng.chance(1, 2) {
        s.push_str("#[logos(extras = Extras)]\n");
    }
    if rng.chance(1, 8) {
        s.push_str("#[logos(crate = some::path::_logos)]\n");
    }
    let nsub = rng.below(4);
    for i in 0..nsub {
        let body = if i > 0 && rng.chance(1, 2) { format!("(?&s{})[01]", i - 1) } else { random_regex(rng, false) };
        let _ = writeln!(s, "#[logos(subpattern s{} = r\"{}\")]", i, body);
    }
    match rng.below(4) {
        0 => s.push_str("#[logos(skip r\"[ \\t\\n]+\")]\n"),
        1 => s.push_str("#[logos(skip(r\"//[^\\n]*\", allow_greedy = true, priority = 7))]\n"),
        2 => s.push_str("#[logos(skip(r\" +\", callback = |lex| { lex.extras.count += 1; }, priority = 2))]\n"),
        _ => {}
    }
    if generic {
        s.push_str("#[logos(type T = u64)]\n");
    }
    // diagnostic catalog: every way the derive can say no should be taken by some definition, and (because the text of a
    // diagnostic is output too) more than once per process; a third of the rich definitions draw 1-4 entries
    let catalog = rng.chance(1, 3);
    let mut variant_diags: Vec<&'static str> = Vec::new();
    if catalog {
        for _ in 0..rng.range(1, 4) {
            if rng.chance(1, 2) {
                s.push_str(*rng.pick(ENUM_DIAGNOSTICS));
                s.push('\n');
            } else {
                variant_diags.push(*rng.pick(VARIANT_DIAGNOSTICS));
            }
        }
    }
    let generics = match (lifetime, generic) {
        (true, true) => "<'s, T>",
        (true, false) => "<'s>",
        (false, true) => "<T>",
        _ => "",
    };
    let _ = writeln!(s, "pub enum {}{} {{", name, generics);
    for (k, d) in variant_diags.iter().enumerate() {
        let _ = writeln!(s, "    {}\n    Diag{},", d, k);
    }
    // "error soup": several diagnostics of different kinds at once (their text and order are output too)
    let soup = rng.chance(1, 3);
    if soup {
        let names = ["alpha", "beta", "gamma", "delta", "omega"];
        let k = rng.range(2, 4);
        let mut refs = String::new();
        for j in 0..k {
            refs.push_str(&format!("(?&{})", names[(j + rng.below(2)) % names.len()]));
            if rng.chance(1, 2) { refs.push('x'); }
        }
        let _ = writeln!(s, "    #[regex(r\"{}\")]\n    Undefined,", refs);
        if rng.chance(1, 2) { let _ = writeln!(s, "    #[regex(r\"a*\")]\n    Empty,"); }
        if rng.chance(1, 2) { let _ = writeln!(s, "    #[regex(r\"(?&{})b|(?&{})\")]\n    Undefined2,", names[rng.below(5)], names[rng.below(5)]); }
        if rng.chance(1, 3) { let _ = writeln!(s, "    #[token(\"n\")]\n    Named {{ a: u8 }},"); }
        if rng.chance(1, 3) { let _ = writeln!(s, "    #[token(\"two\")]\n    Two(u8, u8),"); }
        if rng.chance(1, 3) && utf8 { let _ = writeln!(s, "    #[regex(b\"\\xFF+\")]\n    NotUtf8,"); }
        if rng.chance(1, 3) { let _ = writeln!(s, "    #[regex(\"(?<name>a)\\\\1\")]\n    Backref,"); }
        if rng.chance(1, 3) { let _ = writeln!(s, "    #[regex(\".+\")]\n    Greedy,"); }
    }
    let nvar = rng.range(2, 10);
    let mut prios: Vec<usize> = (1..=60).collect();
    for v in 0..nvar {
        let nattr = 1 + rng.below(3).min(rng.below(3));
        let payload = match rng.below(6) {
            0 if lifetime => Some(if utf8 { "&'s str" } else { "&'s [u8]" }),
            1 => Some("u64"),
            2 if generic => Some("T"),
            3 => Some("usize"),
            _ => None,
        };
        for _ in 0..nattr {
            let is_token = rng.chance(1, 3);
            let lit = if is_token {
                format!("{:?}", VOCAB[rng.below(VOCAB.len())])
            } else if nsub > 0 && rng.chance(1, 3) {
                format!("r\"(?&s{}){}\"", rng.below(nsub), if rng.chance(1, 2) { "+" } else { "x" })
            } else {
                format!("r\"{}\"", random_regex(rng, true))
            };
            let mut args = vec![lit];
            let cb = match (payload, rng.below(5)) {
                (Some("&'s str"), _) | (Some("&'s [u8]"), _) => Some("|lex| lex.slice()".to_string()),
                (Some("u64"), 0) => Some("parse_number".to_string()),
                (Some("u64"), _) => Some("|lex| lex.slice().len() as u64".to_string()),
                (Some("T"), _) => Some("callback = make_t".to_string()),
                (Some(_), _) => Some("|lex| lex.slice().len()".to_string()),
                (None, 0) => Some("logos::skip".to_string()),
                (None, 1) => Some(format!("callback = cb_{}", v)),
                (None, 2) => Some("|lex| { lex.extras.count += 1; }".to_string()),
                _ => None,
            };
            if let Some(cb) = cb {
                args.push(cb);
            }
            if rng.chance(3, 4) {
                let k = rng.below(prios.len());
                args.push(format!("priority = {}", prios.remove(k)));
            }
            if rng.chance(1, 10) {
                args.push("ignore(case)".into());
            }
            // named arguments in a random order (the leading literal and a positional callback stay in front)
            if args.len() > 3 && rng.chance(1, 2) {
                let last = args.len() - 1;
                args.swap(2, last);
            }
            let _ = writeln!(s, "    #[{}({})]", if is_token { "token" } else { "regex" }, args.join(", "));
        }
        match payload {
            Some(ty) => {
                let _ = writeln!(s, "    V{}({}),", v, ty);
            }
            None => {
                let _ = writeln!(s, "    V{},", v);
            }
        }
    }
    s.push_str("}\n");
    s
}
