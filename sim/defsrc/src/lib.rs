//! Where the compiler-side engines (hash-sim, cli-sim) get their enum definitions from:
//! every `#[derive(Logos)]` enum found in /repo's own tests and examples (parsed at run time, so
//! the corpus follows the tree), the stream-sim corpus, seeded random definitions, and — for the
//! CLI — seeded *decorations* of those (extra derives, path-qualified derives, other attributes).
//! Also the harness' own, independent notion of "the enum with the logos attributes removed".

use quote::ToTokens;
use simcore::Rng;
use syn::visit::Visit;

pub mod defs {
    use simcore::Rng;
    include!("../../corpus/table.rs");
    include!("../../corpus/gen.rs");
}

#[derive(Clone, Debug)]
pub struct Definition {
    pub id: String,
    pub origin: String,
    pub source: String,
}

struct Finder {
    found: Vec<String>,
}

pub fn derives_logos(attrs: &[syn::Attribute]) -> bool {
    let mut is_logos = false;
    for a in attrs {
        if a.path().is_ident("derive") {
            let _ = a.parse_nested_meta(|m| {
                if m.path.segments.last().map(|s| s.ident == "Logos").unwrap_or(false) {
                    is_logos = true;
                }
                Ok(())
            });
        }
    }
    is_logos
}

impl<'ast> Visit<'ast> for Finder {
    fn visit_item_enum(&mut self, e: &'ast syn::ItemEnum) {
        if derives_logos(&e.attrs) {
            self.found.push(e.to_token_stream().to_string());
        }
        syn::visit::visit_item_enum(self, e);
    }
}

fn walk(p: &std::path::Path, out: &mut Vec<std::path::PathBuf>) {
    if let Ok(rd) = std::fs::read_dir(p) {
        let mut entries: Vec<_> = rd.flatten().map(|e| e.path()).collect();
        entries.sort();
        for p in entries {
            if p.is_dir() {
                if p.file_name().map(|n| n == "target").unwrap_or(false) {
                    continue;
                }
                walk(&p, out)
            } else if p.extension().map_or(false, |x| x == "rs") {
                out.push(p)
            }
        }
    }
}

pub fn repo_definitions(repo: &str) -> Vec<Definition> {
    let mut files = Vec::new();
    for dir in ["tests/tests", "tests/benches", "tests/src", "examples", "logos-codegen/tests/data", "logos-cli/tests/data", "fuzz"] {
        walk(&std::path::Path::new(repo).join(dir), &mut files);
    }
    let mut defs = Vec::new();
    for f in &files {
        let Ok(text) = std::fs::read_to_string(f) else { continue };
        let Ok(file) = syn::parse_file(&text) else { continue };
        let mut fd = Finder { found: vec![] };
        fd.visit_file(&file);
        let rel = f.strip_prefix(repo).unwrap_or(f).display().to_string();
        let rel = rel.trim_start_matches('/').to_string();
        for (i, d) in fd.found.into_iter().enumerate() {
            defs.push(Definition { id: format!("{}#{}", rel, i), origin: "repo".into(), source: d });
        }
    }
    defs
}

pub fn corpus_definitions() -> Vec<Definition> {
    defs::table_defs()
        .iter()
        .map(|d| Definition { id: format!("corpus/{}", d.name), origin: "corpus".into(), source: defs::enum_source(d) })
        .collect()
}

pub fn random_definitions(seed: u64, n: usize) -> Vec<Definition> {
    (0..n as u64)
        .map(|k| {
            let mut rng = Rng::for_run(seed, "defsrc/random-def", k);
            // flavours: plain / many tokens (jump tables, many states) / conflicts (several graph errors)
            let (conflicts, many) = match k % 5 {
                0 => (false, false),
                1 => (false, true),
                2 => (true, true),
                3 => (true, false),
                _ => (true, true),
            };
            if k % 17 == 16 {
                // huge definitions: several hundred states, many lookup tables and jump tables
                let mut d = defs::random_def(&mut rng, &format!("Rnd{}", k), false, true);
                for j in 0..rng.range(4, 9) {
                    let mut extra = defs::random_def(&mut rng, "x", false, j % 2 == 0);
                    for (i, p) in extra.pats.drain(..).enumerate() {
                        let mut p = p;
                        p.var = format!("W{}_{}", j, i);
                        p.prio = 100 + 40 * j + p.prio;
                        if !d.pats.iter().any(|q| q.lit == p.lit) { d.pats.push(p); }
                    }
                }
                return Definition { id: format!("random/{}", k), origin: "random".into(), source: defs::enum_source(&d) };
            }
            if k % 6 == 5 {
                // rich definitions: subpatterns, error types, extras, lifetimes, callbacks of every form
                let src = defs::rich_def_source(&mut rng, &format!("Rnd{}", k));
                return Definition { id: format!("random/{}", k), origin: "random".into(), source: src };
            }
            let d = if k % 5 == 4 {
                // several related priority conflicts at once (rejected definitions: the error text is output too)
                defs::conflict_family_def(&mut rng, &format!("Rnd{}", k))
            } else {
                defs::random_def(&mut rng, &format!("Rnd{}", k), conflicts, many)
            };
            Definition { id: format!("random/{}", k), origin: "random".into(), source: defs::enum_source(&d) }
        })
        .collect()
}

/// Definitions that compile as they stand (given `COMPILABLE_PRELUDE`): the corpus and plain random definitions, whose
/// callbacks come from the fixed menu. Used by the derive leg of C16, where the real proc macro runs inside rustc.
/// The caller filters out the ones the code generator rejects.
pub fn compilable_definitions(seed: u64, n_random: usize) -> Vec<Definition> {
    let mut v = corpus_definitions();
    for k in 0..n_random as u64 {
        let mut rng = Rng::for_run(seed, "defsrc/compilable-def", k);
        let d = defs::random_def(&mut rng, &format!("Rnd{}", k), false, k % 3 == 0);
        v.push(Definition { id: format!("random/{}", k), origin: "random".into(), source: defs::enum_source(&d) });
    }
    v
}

pub const COMPILABLE_PRELUDE: &str = "#![allow(dead_code)]\n#[derive(Clone, Copy, Debug, Default, PartialEq, Eq)]\npub struct Ctr { pub n: u32 }\n";

/// Two small definitions for every entry of the diagnostic catalog (`ENUM_DIAGNOSTICS`, `VARIANT_DIAGNOSTICS`): every way
/// the derive can say no is taken at least twice per process, so that a diagnostic whose text depends on what the process
/// reported before (a "note once", a counter) shows up in the history leg and between key draws.
pub fn diagnostic_definitions() -> Vec<Definition> {
    let mut v = Vec::new();
    for (k, e) in defs::ENUM_DIAGNOSTICS.iter().enumerate() {
        for (j, rest) in ["#[token(\"a\")] A, #[regex(\"[0-9]+\")] Num", "#[regex(\"b+\")] B"].iter().enumerate() {
            v.push(Definition { id: format!("diag/enum{}{}", k, ["a", "b"][j]), origin: "diagnostic".into(),
                source: format!("#[derive(Logos, Debug)]\n{}\nenum DiagE{}{} {{ {} }}\n", e, k, j, rest) });
        }
    }
    for (k, e) in defs::VARIANT_DIAGNOSTICS.iter().enumerate() {
        for (j, rest) in ["#[token(\"a\")] A,", "#[regex(\"b+\")] B, #[token(\"c\")] C,"].iter().enumerate() {
            v.push(Definition { id: format!("diag/variant{}{}", k, ["a", "b"][j]), origin: "diagnostic".into(),
                source: format!("#[derive(Logos, Debug)]\nenum DiagV{}{} {{ {} {} Bad }}\n", k, j, rest, e) });
        }
    }
    v.retain(|d| syn::parse_str::<syn::ItemEnum>(&d.source).is_ok());
    v
}

pub fn all_definitions(repo: &str, seed: u64, n_random: usize) -> Vec<Definition> {
    let mut v = repo_definitions(repo);
    v.extend(corpus_definitions());
    v.extend(diagnostic_definitions());
    v.extend(random_definitions(seed, n_random));
    v
}

// ---------------------------------------------------------------------------------------------
// Decorations (C17): attributes and derives the CLI must preserve
// ---------------------------------------------------------------------------------------------

const EXTRA_DERIVES: &[&str] = &[
    "Clone", "Copy", "Debug", "PartialEq", "Eq", "Hash", "serde::Serialize", "serde::Deserialize", "::core::fmt::Debug", "::core::cmp::PartialOrd",
    "std::hash::Hash", "strum::EnumIter", "my_crate::derives::Thing",
];
const ENUM_ATTRS: &[&str] = &[
    "#[logos_meta(version = 1)]", "#[derive()]", "#[cfg_attr(docsrs, doc(cfg(feature = \"lexer\")))]",
    "#[repr(u8)]", "#[allow(dead_code)]", "#[cfg_attr(test, derive(PartialOrd))]", "#[doc = \"A token.\"]", "#[non_exhaustive]", "#[must_use]",
    "#[cfg_attr(feature = \"serde\", derive(serde::Serialize))]", "#[rustfmt::skip]", "#[serde(rename_all = \"snake_case\")]",
];
const VARIANT_ATTRS: &[&str] = &[
    "#[cfg(feature = \"x\")]", "#[allow(unused)]", "#[doc = \"variant\"]", "#[serde(rename = \"v\")]", "#[default]", "#[deprecated]",
    // near-miss names: not logos attributes, must be preserved
    "#[tokens]", "#[regex_like(\"x\")]", "#[logos_extra(skip)]", "#[my::token(\"x\")]", "#[cfg_attr(test, token(\"t\"))]",
];
const FIELD_ATTRS: &[&str] = &[
    "#[allow(unused)]", "#[serde(borrow)]", "#[doc = \"field\"]", "#[cfg(test)]",
    // logos attributes on a FIELD: ignored by the derive, but they are logos / token / regex attributes and must go
    "#[logos(ignore)]", "#[token(\"t\")]", "#[regex(\"r+\")]",
];

fn parse_attrs(text: &str) -> Vec<syn::Attribute> {
    let item: syn::ItemStruct = syn::parse_str(&format!("{} struct S;", text)).expect("attribute text");
    item.attrs
}

/// A seeded decoration of `source`: same logos definition, more things to preserve.
/// `level` 0 leaves the derive list alone except for adding plain identifiers.
pub fn decorate(source: &str, rng: &mut Rng) -> String {
    let Ok(mut item) = syn::parse_str::<syn::ItemEnum>(source) else { return source.to_string() };
    // 1. rewrite the derive lists
    let mut new_attrs: Vec<syn::Attribute> = Vec::new();
    for a in item.attrs.drain(..) {
        if a.path().is_ident("derive") {
            let mut paths: Vec<String> = Vec::new();
            let _ = a.parse_nested_meta(|m| {
                paths.push(m.path.to_token_stream().to_string().replace(' ', ""));
                Ok(())
            });
            // path-qualify the Logos derive sometimes
            for p in paths.iter_mut() {
                if p == "Logos" && rng.chance(1, 3) {
                    // every way the Logos derive gets spelled: the crate's own path, an absolute path, the derive crate, a
                    // renamed dependency or a re-export through another crate (`#[logos(crate = ..)]` users)
                    *p = rng.pick(&["logos::Logos", "logos::Logos", "::logos::Logos", "logos_derive::Logos", "lg::Logos", "my_framework::Logos", "crate::reexports::logos::Logos"]).to_string();
                }
            }
            // insert extra derives before / between / after
            for _ in 0..rng.below(4) {
                let d = EXTRA_DERIVES[rng.below(EXTRA_DERIVES.len())].to_string();
                if !paths.contains(&d) {
                    let at = rng.below(paths.len() + 1);
                    paths.insert(at, d);
                }
            }
            // maybe split into two derive attributes
            if paths.len() >= 2 && rng.chance(1, 3) {
                let cut = rng.range(1, paths.len() - 1);
                let trailing = rng.chance(1, 4);
                new_attrs.extend(parse_attrs(&format!("#[derive({}{})]", paths[..cut].join(", "), if trailing { "," } else { "" })));
                new_attrs.extend(parse_attrs(&format!("#[derive({})]", paths[cut..].join(", "))));
            } else {
                let trailing = rng.chance(1, 5);
                new_attrs.extend(parse_attrs(&format!("#[derive({}{})]", paths.join(", "), if trailing { "," } else { "" })));
            }
        } else {
            new_attrs.push(a);
        }
        if rng.chance(1, 3) {
            new_attrs.extend(parse_attrs(ENUM_ATTRS[rng.below(ENUM_ATTRS.len())]));
        }
    }
    if rng.chance(1, 3) {
        new_attrs.insert(0, parse_attrs(ENUM_ATTRS[rng.below(ENUM_ATTRS.len())]).remove(0));
    }
    item.attrs = new_attrs;
    // visibility and explicit discriminants
    match rng.below(6) {
        0 => item.vis = syn::parse_str("pub").unwrap(),
        1 => item.vis = syn::parse_str("pub(crate)").unwrap(),
        2 => item.vis = syn::Visibility::Inherited,
        _ => {}
    }
    if rng.chance(1, 6) {
        for (k, v) in item.variants.iter_mut().enumerate() {
            if v.discriminant.is_none() && rng.chance(1, 2) {
                let e: syn::Expr = syn::parse_str(&format!("{}", 10 + 3 * k)).unwrap();
                v.discriminant = Some((Default::default(), e));
            }
        }
    }
    // generics: a where clause, inline bounds, defaults (every part of the item has to survive the stripping, not
    // only the attributes)
    if rng.chance(1, 3) {
        let mut preds: Vec<String> = Vec::new();
        for p in item.generics.params.iter() {
            match p {
                syn::GenericParam::Type(t) => preds.push(format!("{}: {}", t.ident, rng.pick(&["Clone", "Sized", "core::fmt::Debug + Clone", "AsRef<str>"]))),
                syn::GenericParam::Lifetime(l) => preds.push(format!("{0}: {0}", l.lifetime.to_token_stream())),
                syn::GenericParam::Const(_) => {}
            }
        }
        if preds.is_empty() || rng.chance(1, 4) {
            preds.push("u8: Copy".to_string());
        }
        let trailing = if rng.chance(1, 2) { "," } else { "" };
        if let Ok(w) = syn::parse_str::<syn::WhereClause>(&format!("where {}{}", preds.join(", "), trailing)) {
            item.generics.where_clause = Some(w);
        }
    }
    if rng.chance(1, 6) {
        for p in item.generics.params.iter_mut() {
            if let syn::GenericParam::Type(t) = p {
                if t.bounds.is_empty() {
                    t.bounds.push(syn::parse_str("Clone").unwrap());
                }
            }
        }
    }
    // 2. variants and fields
    for v in item.variants.iter_mut() {
        if rng.chance(1, 4) {
            let extra = parse_attrs(VARIANT_ATTRS[rng.below(VARIANT_ATTRS.len())]);
            let at = rng.below(v.attrs.len() + 1);
            for (k, a) in extra.into_iter().enumerate() {
                v.attrs.insert(at + k, a);
            }
        }
        for f in v.fields.iter_mut() {
            if rng.chance(1, 3) {
                f.attrs.extend(parse_attrs(FIELD_ATTRS[rng.below(FIELD_ATTRS.len())]));
            }
        }
    }
    item.to_token_stream().to_string()
}

// ---------------------------------------------------------------------------------------------
// Reference: the enum with exactly the logos / token / regex attributes and the Logos derive removed
// ---------------------------------------------------------------------------------------------

fn is_logos_attr(a: &syn::Attribute) -> bool {
    a.path().is_ident("logos") || a.path().is_ident("token") || a.path().is_ident("regex")
}

/// Independent of `logos_codegen::strip_attributes`: derive lists are parsed as comma-separated
/// paths, and exactly the paths whose last segment is `Logos` are removed.
pub fn reference_strip(source: &str) -> Option<syn::ItemEnum> {
    let mut item: syn::ItemEnum = syn::parse_str(source).ok()?;
    item.attrs.retain(|a| !is_logos_attr(a));
    for a in item.attrs.iter_mut() {
        if a.path().is_ident("derive") {
            if let syn::Meta::List(list) = &mut a.meta {
                let parser = syn::punctuated::Punctuated::<syn::Path, syn::Token![,]>::parse_terminated;
                if let Ok(paths) = syn::parse::Parser::parse2(parser, list.tokens.clone()) {
                    let kept: Vec<syn::Path> = paths.into_iter().filter(|p| p.segments.last().map(|s| s.ident != "Logos").unwrap_or(true)).collect();
                    list.tokens = quote::quote!(#(#kept),*);
                }
            }
        }
    }
    for v in item.variants.iter_mut() {
        v.attrs.retain(|a| !is_logos_attr(a));
        for f in v.fields.iter_mut() {
            f.attrs.retain(|a| !is_logos_attr(a));
        }
    }
    Some(item)
}

/// Normal form used on both sides of the comparison: derive lists re-rendered from their parsed
/// paths (so a trailing comma does not matter) and empty `#[derive()]` attributes dropped (the
/// statement does not say whether an emptied derive attribute stays).
pub fn normalise_enum(mut item: syn::ItemEnum) -> String {
    let mut attrs = Vec::new();
    for mut a in item.attrs.drain(..) {
        if a.path().is_ident("derive") {
            if let syn::Meta::List(list) = &mut a.meta {
                let parser = syn::punctuated::Punctuated::<syn::Path, syn::Token![,]>::parse_terminated;
                if let Ok(paths) = syn::parse::Parser::parse2(parser, list.tokens.clone()) {
                    if paths.is_empty() {
                        continue;
                    }
                    let kept: Vec<syn::Path> = paths.into_iter().collect();
                    list.tokens = quote::quote!(#(#kept),*);
                }
            }
        }
        attrs.push(a);
    }
    item.attrs = attrs;
    item.to_token_stream().to_string()
}
