//! api-sim: deterministic simulation of long-lived lexer handles (C14) and of `bump` faults in
//! the middle of a history (C15). See DESIGN.md sections 4.2 and 4.3.
//!
//! One run = one source + one history of operations over a growing set of handles
//! (`Lexer<A>`, `Lexer<B>`, `SpannedIter<A>`, `SpannedIter<B>`) that share the source. A seeded
//! scheduler picks handle and operation; after every step every live handle is compared with a
//! five-field reference model. In fault mode illegal bumps are executed under `catch_unwind` and
//! the history continues on the same handle.

mod defs;

use defs::*;
use logos::{Lexer, Logos, SpannedIter};
use simcore::*;

// ---------------------------------------------------------------------------------------------
// Scenario (= replayable event list)
// ---------------------------------------------------------------------------------------------

#[derive(Clone, Debug, PartialEq)]
pub enum Op {
    /// `Iterator::next` of the handle (`SpannedIter::next` for a spanned handle)
    Next,
    /// spanned handles only: `next` of the inner lexer through `DerefMut`
    InnerNext,
    Bump(u64),
    Clone,
    Morph,
    Spanned,
    SetExtras(ExM),
    Drop,
    /// clone twice; `spanned().collect()` of one clone must equal manual iteration of the other
    Drain,
    /// `handles[h].clone_from(&handles[src])` (the other half of the `Clone` trait), same handle kind required
    CloneFrom(usize),
    /// a new lexer of token type A over the run's SECOND source (ordinary or partial); handles over different sources
    /// meet in `CloneFrom` (the step's handle index is ignored)
    Open2(bool),
}

#[derive(Clone, Debug, PartialEq)]
pub struct Step {
    pub h: usize,
    pub op: Op,
}

#[derive(Clone, Debug)]
pub struct Scenario {
    pub pair: String,
    pub source: Vec<u8>,
    /// a second, different source (its own allocation) that `Open2` opens lexers over
    pub source2: Vec<u8>,
    /// the first source is preceded by this many zero bytes (0, or a little under 4 GiB: offsets beyond u32::MAX); the
    /// history then starts with a bump over them
    pub zero_prefix: u64,
    pub partial: bool,
    pub extras: ExM,
    pub steps: Vec<Step>,
}

fn exm_json(x: &ExM) -> Value {
    json!({"count": x.count, "request": x.request, "force": x.force, "tag": x.tag})
}
fn exm_from(v: &Value) -> Option<ExM> {
    Some(ExM {
        count: v.get("count")?.as_u64()? as u32,
        request: v.get("request")?.as_u64()?,
        force: v.get("force")?.as_bool()?,
        tag: v.get("tag")?.as_u64()? as u8,
    })
}

impl Step {
    fn to_json(&self) -> Value {
        match &self.op {
            Op::Bump(n) => json!({"h": self.h, "op": "Bump", "n": n}),
            Op::SetExtras(x) => json!({"h": self.h, "op": "SetExtras", "extras": exm_json(x)}),
            Op::CloneFrom(src) => json!({"h": self.h, "op": "CloneFrom", "src": src}),
            Op::Open2(partial) => json!({"h": self.h, "op": "Open2", "partial": partial}),
            other => json!({"h": self.h, "op": format!("{:?}", other)}),
        }
    }
    fn from_json(v: &Value) -> Option<Step> {
        let h = v.get("h")?.as_u64()? as usize;
        let op = match v.get("op")?.as_str()? {
            "Next" => Op::Next,
            "InnerNext" => Op::InnerNext,
            "Bump" => Op::Bump(v.get("n")?.as_u64()?),
            "Clone" => Op::Clone,
            "Morph" => Op::Morph,
            "Spanned" => Op::Spanned,
            "SetExtras" => Op::SetExtras(exm_from(v.get("extras")?)?),
            "Drop" => Op::Drop,
            "Drain" => Op::Drain,
            "CloneFrom" => Op::CloneFrom(v.get("src")?.as_u64()? as usize),
            "Open2" => Op::Open2(v.get("partial")?.as_bool()?),
            _ => return None,
        };
        Some(Step { h, op })
    }
}

impl Scenario {
    fn to_json(&self) -> Value {
        json!({
            "pair": self.pair,
            "source_hex": to_hex(&self.source),
            "source2_hex": to_hex(&self.source2),
            "zero_prefix": self.zero_prefix,
            "source_text": show_bytes(&self.source),
            "partial": self.partial,
            "extras": exm_json(&self.extras),
            "steps": self.steps.iter().map(|s| s.to_json()).collect::<Vec<_>>(),
        })
    }
    fn from_json(v: &Value) -> Option<Scenario> {
        Some(Scenario {
            pair: v.get("pair")?.as_str()?.to_string(),
            source: from_hex(v.get("source_hex")?.as_str()?)?,
            // replay files written before the second source existed: a copy of the first one
            zero_prefix: v.get("zero_prefix").and_then(|z| z.as_u64()).unwrap_or(0),
            source2: match v.get("source2_hex") { Some(h) => from_hex(h.as_str()?)?, None => from_hex(v.get("source_hex")?.as_str()?)? },
            partial: v.get("partial")?.as_bool()?,
            extras: exm_from(v.get("extras")?)?,
            steps: v.get("steps")?.as_array()?.iter().map(Step::from_json).collect::<Option<Vec<_>>>()?,
        })
    }
    fn hash(&self) -> u64 {
        fnv1a(self.to_json().to_string().as_bytes())
    }
}

// ---------------------------------------------------------------------------------------------
// Reference model of one handle: the five fields of `Lexer` and nothing else
// ---------------------------------------------------------------------------------------------

#[derive(Clone, Debug)]
pub struct M {
    /// which of the run's two sources the handle reads (0 / 1)
    pub src: u8,
    /// 0 = token type A, 1 = token type B
    pub def: u8,
    pub start: usize,
    pub end: usize,
    pub prefix: bool,
    pub ex: ExM,
    pub spanned: bool,
    pub alive: bool,
    /// set after a caught panic left `span()` in a state that is not a valid range of the source
    pub corrupt: bool,
    // bookkeeping for probes / non-triviality, not part of the compared state
    pub bumped_since_next: bool,
    pub last_none: bool,
    pub fault_seen: bool,
}

#[derive(Clone, Debug)]
pub struct Violation {
    pub oracle: &'static str,
    pub step: usize,
    pub opkind: String,
    pub detail: String,
    pub what: String,
}

#[derive(Default, Clone, Debug)]
pub struct Stats {
    pub c: std::collections::BTreeMap<&'static str, u64>,
    pub steps_executed: u64,
    pub max_live: usize,
    pub first_next_seen: bool,
    pub clone_or_morph_after_next: bool,
    pub op_after_fault_same_handle: bool,
}
impl Stats {
    fn hit(&mut self, k: &'static str) {
        *self.c.entry(k).or_insert(0) += 1;
    }
}

pub struct Outcome {
    pub scenario: Scenario,
    pub stats: Stats,
    pub violation: Option<Violation>,
}

/// Where steps come from: a recorded list (replay, minimisation) or the seeded scheduler.
pub enum StepSource<'a> {
    Replay(std::slice::Iter<'a, Step>),
    Gen { rng: &'a mut Rng, remaining: usize },
}

pub trait SrcKind {
    const IS_STR: bool;
    /// owner of a private, exactly sized copy of the source
    type Owned;
    fn owned(b: &[u8]) -> Option<Self::Owned>;
    /// `prefix` zero bytes followed by `b`, without ever touching the zero pages (huge sources: offsets beyond u32::MAX)
    fn owned_prefixed(prefix: usize, b: &[u8]) -> Option<Self::Owned>;
    fn view(o: &Self::Owned) -> &Self;
    fn as_bytes_(&self) -> &[u8];
}
impl SrcKind for str {
    const IS_STR: bool = true;
    type Owned = Box<str>;
    fn owned(b: &[u8]) -> Option<Box<str>> {
        std::str::from_utf8(b).ok().map(Box::from)
    }
    fn owned_prefixed(prefix: usize, b: &[u8]) -> Option<Box<str>> {
        std::str::from_utf8(b).ok()?;
        let mut v = vec![0u8; prefix + b.len()];
        v[prefix..].copy_from_slice(b);
        // NUL bytes followed by text that was just validated
        Some(unsafe { String::from_utf8_unchecked(v) }.into_boxed_str())
    }
    fn view(o: &Box<str>) -> &str {
        o
    }
    fn as_bytes_(&self) -> &[u8] {
        self.as_bytes()
    }
}
impl SrcKind for [u8] {
    const IS_STR: bool = false;
    type Owned = Box<[u8]>;
    fn owned(b: &[u8]) -> Option<Box<[u8]>> {
        Some(Box::from(b))
    }
    fn owned_prefixed(prefix: usize, b: &[u8]) -> Option<Box<[u8]>> {
        let mut v = vec![0u8; prefix + b.len()];
        v[prefix..].copy_from_slice(b);
        Some(v.into_boxed_slice())
    }
    fn view(o: &Box<[u8]>) -> &[u8] {
        o
    }
    fn as_bytes_(&self) -> &[u8] {
        self
    }
}
/// A source reached through logos' blanket `impl<T: Deref> Source for T` (only usable with a hand-written `Logos` impl).
impl SrcKind for String {
    const IS_STR: bool = true;
    type Owned = String;
    fn owned(b: &[u8]) -> Option<String> {
        let mut s = String::from_utf8(b.to_vec()).ok()?;
        s.shrink_to_fit();
        Some(s)
    }
    fn owned_prefixed(prefix: usize, b: &[u8]) -> Option<String> {
        std::str::from_utf8(b).ok()?;
        let mut v = vec![0u8; prefix + b.len()];
        v[prefix..].copy_from_slice(b);
        Some(unsafe { String::from_utf8_unchecked(v) })
    }
    fn view(o: &String) -> &String {
        o
    }
    fn as_bytes_(&self) -> &[u8] {
        self.as_bytes()
    }
}

/// Address and length of a returned slice, without touching what it points to.
pub trait Raw {
    fn raw(&self) -> (usize, usize);
}
impl Raw for &str {
    #[inline(never)]
    fn raw(&self) -> (usize, usize) {
        std::hint::black_box((self.as_ptr() as usize, self.len()))
    }
}
impl Raw for &[u8] {
    #[inline(never)]
    fn raw(&self) -> (usize, usize) {
        std::hint::black_box((self.as_ptr() as usize, self.len()))
    }
}

fn is_boundary(src: &[u8], is_str: bool, i: usize) -> bool {
    if i > src.len() {
        return false;
    }
    if !is_str || i == src.len() {
        return true;
    }
    (src[i] & 0xC0) != 0x80
}

fn legal_bump(src: &[u8], is_str: bool, end: usize, n: u64) -> Option<usize> {
    let n: usize = usize::try_from(n).ok()?;
    let e = end.checked_add(n)?;
    if is_boundary(src, is_str, e) {
        Some(e)
    } else {
        None
    }
}

fn fault_class(src: &[u8], is_str: bool, start: usize, end: usize, n: u64) -> &'static str {
    let n = n as usize;
    match end.checked_add(n) {
        Some(e) if e <= src.len() => {
            let _ = is_str;
            "inside_codepoint"
        }
        Some(e) if e <= src.len() + 64 => "past_end_near",
        Some(_) => "past_end_far",
        None => {
            let t = end.wrapping_add(n);
            if t <= src.len() && is_boundary(src, is_str, t) {
                if t < start {
                    "overflow_wraps_in_range_before_start"
                } else {
                    "overflow_wraps_in_range"
                }
            } else {
                "overflow_wraps_out_of_range"
            }
        }
    }
}

/// Draw the next step given the models of the live handles.
fn gen_step(rng: &mut Rng, models: &[M], srcs: &[&[u8]; 2], is_str: bool, faults: bool) -> Step {
    let live: Vec<usize> = (0..models.len()).filter(|&i| models[i].alive).collect();
    if live.is_empty() {
        return Step { h: 0, op: Op::Next };
    }
    let h = *rng.pick(&live);
    let m = &models[h];
    let src: &[u8] = srcs[m.src as usize];
    if live.len() < 6 && rng.chance(1, 24) {
        return Step { h, op: Op::Open2(rng.chance(1, 3)) };
    }
    // weights: Next, InnerNext, Bump(legal), Bump(fault), Clone, Morph, Spanned, SetExtras, Drop, Drain
    let w_fault = if faults { 14 } else { 0 };
    let weights = [
        34,
        if m.spanned { 8 } else { 0 },
        12,
        w_fault,
        9,
        if m.spanned { 0 } else { 10 },
        if m.spanned { 0 } else { 4 },
        6,
        if live.len() > 1 { 3 } else { 0 },
        if m.spanned { 0 } else { 3 },
        if live.len() > 1 { 5 } else { 0 },
    ];
    let op = match rng.weighted(&weights) {
        0 => Op::Next,
        1 => Op::InnerNext,
        2 => {
            // legal operand: a boundary at or after `end`
            let cands: Vec<usize> = (m.end..=src.len()).filter(|&e| is_boundary(src, is_str, e)).collect();
            if cands.is_empty() {
                Op::Bump(0)
            } else {
                let e = match rng.below(8) {
                    0 => cands[0],
                    1 => *cands.last().unwrap(),
                    2..=4 => cands[rng.below(cands.len().min(4))],
                    _ => *rng.pick(&cands),
                };
                Op::Bump((e - m.end) as u64)
            }
        }
        3 => Op::Bump(gen_fault_operand(rng, m, src, is_str)),
        4 => Op::Clone,
        5 => Op::Morph,
        6 => Op::Spanned,
        7 => {
            let request = match rng.below(4) {
                0 => 0,
                1 => rng.below(4) as u64,
                2 => rng.below(src.len() + 2) as u64,
                _ => {
                    if faults && rng.chance(1, 2) {
                        gen_fault_operand(rng, m, src, is_str)
                    } else {
                        rng.below(6) as u64
                    }
                }
            };
            Op::SetExtras(ExM {
                count: rng.below(1000) as u32,
                request,
                force: faults && rng.chance(1, 2),
                tag: rng.below(256) as u8,
            })
        }
        8 => Op::Drop,
        9 => Op::Drain,
        _ => {
            // a source handle of the same kind (definition and spanned-ness), if there is one
            let cands: Vec<usize> = live.iter().cloned().filter(|&j| j != h && models[j].def == m.def && models[j].spanned == m.spanned).collect();
            if cands.is_empty() { Op::Clone } else { Op::CloneFrom(*rng.pick(&cands)) }
        }
    };
    Step { h, op }
}

fn gen_fault_operand(rng: &mut Rng, m: &M, src: &[u8], is_str: bool) -> u64 {
    let len = src.len();
    let end = m.end.min(len);
    match rng.below(7) {
        0 => (len - end + 1) as u64,
        1 => (len - end + 1 + rng.below(40)) as u64,
        2 => *rng.pick(&[1u64 << 32, (usize::MAX / 2) as u64, (usize::MAX / 2 + 1) as u64]),
        3 => {
            // inside a code point
            let cands: Vec<usize> = (end..len).filter(|&e| !is_boundary(src, is_str, e)).collect();
            if cands.is_empty() {
                (len - end + 1) as u64
            } else {
                (*rng.pick(&cands) - end) as u64
            }
        }
        4 => *rng.pick(&[u64::MAX, u64::MAX - 1, u64::MAX - (len as u64)]),
        5 => {
            // wraps to an in-range boundary t < end  (needs end > 0)
            let cands: Vec<usize> = if m.end > (1 << 20) {
                // a huge source: its first bytes are zeros, every offset there is a boundary
                vec![0, 1, rng.below(1 << 16), (m.end - 1).min(len), m.end.saturating_sub(1 + rng.below(64)).min(len)].into_iter().filter(|&t| t < m.end && is_boundary(src, is_str, t)).collect()
            } else {
                (0..m.end.min(len + 1)).filter(|&t| is_boundary(src, is_str, t)).collect()
            };
            if cands.is_empty() {
                u64::MAX
            } else {
                let t = *rng.pick(&cands);
                (t as u64).wrapping_sub(m.end as u64)
            }
        }
        _ => {
            // wraps out of range: t > len
            let t = len + 1 + rng.below(50);
            if t < m.end {
                (t as u64).wrapping_sub(m.end as u64)
            } else {
                u64::MAX - rng.below(3) as u64
            }
        }
    }
}

/// `spanned()` "yields exactly the (item, span) pairs of manual iteration" whichever way the iterator is consumed: the
/// provided methods of `Iterator` that an implementation may override (`last`, `nth`, `count`, `fold`, `size_hint`) are
/// compared with the manually collected pairs, for the spanned iterator and for the lexer itself. `manual` must be a
/// complete iteration (ended by `None`). Returns a description of the first disagreement.
fn adaptor_mismatch<'s, T>(l: &Lexer<'s, T>, manual: &[(String, (usize, usize))]) -> Option<String>
where
    T: Logos<'s> + std::fmt::Debug + Clone,
    T::Extras: Clone,
    T::Error: std::fmt::Debug,
{
    let f = |(t, s): (Result<T, T::Error>, std::ops::Range<usize>)| (format!("{:?}", t), (s.start, s.end));
    let n = manual.len();
    let k = n / 2;
    let got = l.clone().spanned().last().map(f);
    if got.as_ref() != manual.last() {
        return Some(format!("spanned().last() = {:?} but the last pair of manual iteration is {:?}", got, manual.last()));
    }
    let got = l.clone().spanned().nth(k).map(f);
    if got.as_ref() != manual.get(k) {
        return Some(format!("spanned().nth({}) = {:?} but manual iteration gives {:?}", k, got, manual.get(k)));
    }
    let mut it = l.clone().spanned();
    let first = it.nth(0).map(f);
    let rest: Vec<_> = it.map(f).collect();
    if first.as_ref() != manual.first() || (n > 0 && rest[..] != manual[1..]) {
        return Some(format!("spanned(): nth(0) followed by the rest = {:?} + {:?} but manual iteration gives {:?}", first, rest, manual));
    }
    let got = l.clone().spanned().count();
    if got != n {
        return Some(format!("spanned().count() = {} but manual iteration yields {} pairs", got, n));
    }
    let got = l.clone().spanned().fold(Vec::new(), |mut v, x| { v.push(f(x)); v });
    if got[..] != manual[..] {
        return Some(format!("spanned().fold(..) saw {:?} but manual iteration gives {:?}", got, manual));
    }
    let (lo, hi) = l.clone().spanned().size_hint();
    if lo > n || hi.map_or(false, |h| h < n) {
        return Some(format!("spanned().size_hint() = ({}, {:?}) but the iterator yields {} pairs", lo, hi, n));
    }
    // the lexer itself
    let g = |t: Result<T, T::Error>| format!("{:?}", t);
    let got = l.clone().last().map(g);
    if got.as_ref() != manual.last().map(|p| &p.0) {
        return Some(format!("Lexer::last() = {:?} but the last item of manual iteration is {:?}", got, manual.last().map(|p| &p.0)));
    }
    let mut lx = l.clone();
    let got = lx.nth(k).map(g);
    if got.as_ref() != manual.get(k).map(|p| &p.0) || (got.is_some() && (lx.span().start, lx.span().end) != manual[k].1) {
        return Some(format!("Lexer::nth({}) = {:?} at {:?} but manual iteration gives {:?}", k, got, lx.span(), manual.get(k)));
    }
    let got = l.clone().count();
    if got != n {
        return Some(format!("Lexer::count() = {} but manual iteration yields {} items", got, n));
    }
    let (lo, hi) = l.clone().size_hint();
    if lo > n || hi.map_or(false, |h| h < n) {
        return Some(format!("Lexer::size_hint() = ({}, {:?}) but the lexer yields {} items", lo, hi, n));
    }
    None
}

macro_rules! violation {
    ($oracle:expr, $step:expr, $opkind:expr, $detail:expr, $($fmt:tt)*) => {
        Violation { oracle: $oracle, step: $step, opkind: $opkind.to_string(), detail: $detail.to_string(), what: format!($($fmt)*) }
    };
}

// ---------------------------------------------------------------------------------------------
// The simulator proper, instantiated per pair of token types
// ---------------------------------------------------------------------------------------------

macro_rules! pair_sim {
    ($modname:ident, $A:ty, $B:ty, $EA:ty, $EB:ty, $Src:ty) => {
        pub mod $modname {
            use super::*;

            pub enum H<'s> {
                LA(Lexer<'s, $A>),
                LB(Lexer<'s, $B>),
                SA(SpannedIter<'s, $A>),
                SB(SpannedIter<'s, $B>),
                Dead,
            }

            /// Run `$body` with `$l: &mut Lexer<_, _>` bound to the (inner) lexer of the handle.
            macro_rules! with_lexer {
                ($h:expr, $l:ident => $body:expr) => {
                    match $h {
                        H::LA($l) => $body,
                        H::LB($l) => $body,
                        H::SA(s) => {
                            let $l = &mut **s;
                            $body
                        }
                        H::SB(s) => {
                            let $l = &mut **s;
                            $body
                        }
                        H::Dead => unreachable!("dead handle"),
                    }
                };
            }

            type ExpectNext = Result<(String, (usize, usize), ExM), String>;

            /// What `next()` must do, by the property's own definition: a handle's future depends
            /// only on (source, token_end, is_prefix, extras, definition). A fresh lexer of the
            /// same definition is put into exactly that state and stepped once.
            fn expect_next(src: &$Src, m: &M) -> ExpectNext {
                catch(|| {
                    if m.def == 0 {
                        // built through the OTHER pair of constructors than the handles under test
                        // (new / new_partial + assignment to the public extras field), so that a constructor
                        // that loses the mode or the extras shows up as a disagreement
                        let mut lx: Lexer<'_, $A> = if m.prefix { Lexer::new_partial(src) } else { Lexer::new(src) };
                        lx.extras = <$EA as Ex>::from_model(m.ex);
                        lx.bump(m.end);
                        let item = lx.next();
                        (format!("{:?}", item), (lx.span().start, lx.span().end), lx.extras.to_model())
                    } else {
                        let mut lx: Lexer<'_, $B> = if m.prefix { Lexer::new_partial(src) } else { Lexer::new(src) };
                        lx.extras = <$EB as Ex>::from_model(m.ex);
                        lx.bump(m.end);
                        let item = lx.next();
                        (format!("{:?}", item), (lx.span().start, lx.span().end), lx.extras.to_model())
                    }
                })
            }

            fn extras_of(h: &mut H) -> ExM {
                match h {
                    H::LA(l) => l.extras.to_model(),
                    H::LB(l) => l.extras.to_model(),
                    H::SA(s) => s.extras.to_model(),
                    H::SB(s) => s.extras.to_model(),
                    H::Dead => unreachable!(),
                }
            }

            /// Can the accessor be called in this build without risking a non-unwinding abort
            /// (std's unsafe-precondition checks, active with debug assertions)?
            fn slice_call_is_safe(span: (usize, usize), len: usize) -> bool {
                if cfg!(feature = "forbid_unsafe") || !cfg!(debug_assertions) {
                    return true;
                }
                // dev + unchecked slicing: logos' own debug_assert unwinds when out of bounds;
                // a reversed in-bounds range would reach `get_unchecked` and abort.
                span.0 > len || span.1 > len || span.0 <= span.1
            }

            /// Compare every live handle with its model (and observe B2 on corrupt handles).
            fn sweep(
                handles: &mut [H],
                models: &[M],
                srcs: &[&$Src; 2],
                stats: &mut Stats,
                step: usize,
                opkind: &str,
            ) -> Result<(), Violation> {
                for (i, h) in handles.iter_mut().enumerate() {
                    let m = &models[i];
                    if !m.alive {
                        continue;
                    }
                    let bytes = <$Src as SrcKind>::as_bytes_(srcs[m.src as usize]);
                    let base = bytes.as_ptr() as usize;
                    let len = bytes.len();
                    let (span, ex, sptr) = with_lexer!(h, l => {
                        let sp = l.span();
                        let s = l.source();
                        ((sp.start, sp.end), l.extras.to_model(), {
                            let b = <$Src as SrcKind>::as_bytes_(s);
                            (b.as_ptr() as usize, b.len())
                        })
                    });
                    if span != (m.start, m.end) {
                        return Err(violation!("ACC-span", step, opkind, "",
                            "handle {} (def {}): span() = {}..{} but the model says {}..{}", i, m.def, span.0, span.1, m.start, m.end));
                    }
                    if ex != m.ex {
                        return Err(violation!("ACC-extras", step, opkind, "",
                            "handle {} (def {}): extras = {:?} but the model says {:?}", i, m.def, ex, m.ex));
                    }
                    if sptr != (base, len) {
                        return Err(violation!("ACC-source", step, opkind, "",
                            "handle {}: source() is not the source the handle was created over / last cloned from (source #{})", i, m.src));
                    }
                    if !m.corrupt {
                        let got = catch(|| with_lexer!(h, l => (l.slice().raw(), l.remainder().raw())));
                        match got {
                            Err(p) => {
                                return Err(violation!("ACC-panic", step, opkind, "",
                                    "handle {}: slice()/remainder() panicked on valid span {}..{}: {}", i, m.start, m.end, p));
                            }
                            Ok((sl, rem)) => {
                                if sl != (base + m.start, m.end - m.start) {
                                    return Err(violation!("ACC-slice", step, opkind, "",
                                        "handle {}: slice() = source[{}..{}] but span() = {}..{}", i,
                                        sl.0.wrapping_sub(base), sl.0.wrapping_sub(base).wrapping_add(sl.1), m.start, m.end));
                                }
                                if rem != (base + m.end, len - m.end) {
                                    return Err(violation!("ACC-remainder", step, opkind, "",
                                        "handle {}: remainder() = source[{}..{}] but span().end = {} and len = {}", i,
                                        rem.0.wrapping_sub(base), rem.0.wrapping_sub(base).wrapping_add(rem.1), m.end, len));
                                }
                            }
                        }
                    } else {
                        // B2: whatever safe code obtains must lie inside the source.
                        stats.hit("b2_observations_on_invalid_span");
                        if slice_call_is_safe(span, len) {
                            match catch(|| with_lexer!(h, l => l.slice().raw())) {
                                Err(_) => stats.hit("b2_slice_panicked_nothing_obtained"),
                                Ok((p, n)) => {
                                    let off = p.wrapping_sub(base);
                                    let inside = p >= base && off <= len && n <= len - off;
                                    if !inside || span.0 > span.1 {
                                        return Err(violation!("B2-slice", step, opkind, "slice",
                                            "after a failed bump, slice() returned offset {} length {} of a {}-byte source (span() = {}..{})",
                                            off as isize, n, len, span.0, span.1));
                                    }
                                    if <$Src as SrcKind>::IS_STR && !(is_boundary(bytes, true, off) && is_boundary(bytes, true, off + n)) {
                                        // a `&str` that splits a code point is not a slice of the source safe code could ever hold:
                                        // the failed bump has in effect moved the end to a position bump must refuse
                                        return Err(violation!("B2-slice", step, opkind, "slice-splits-code-point",
                                            "after a bump that panicked, slice() returned the str slice {}..{} of the source, which splits a multi-byte character (span() = {}..{}): the refused position was stored",
                                            off, off + n, span.0, span.1));
                                    }
                                    stats.hit("b2_slice_in_range");
                                }
                            }
                        } else {
                            stats.hit("b2_skipped_would_abort_in_this_build");
                        }
                        match catch(|| with_lexer!(h, l => l.remainder().raw())) {
                            Err(_) => stats.hit("b2_remainder_panicked_nothing_obtained"),
                            Ok((p, n)) => {
                                let off = p.wrapping_sub(base);
                                let inside = p >= base && off <= len && n <= len - off;
                                if !inside {
                                    return Err(violation!("B2-remainder", step, opkind, "remainder",
                                        "after a failed bump, remainder() returned offset {} length {} of a {}-byte source (span() = {}..{})",
                                        off as isize, n, len, span.0, span.1));
                                }
                                if <$Src as SrcKind>::IS_STR && !is_boundary(bytes, true, off) {
                                    return Err(violation!("B2-remainder", step, opkind, "remainder-splits-code-point",
                                        "after a bump that panicked, remainder() starts at {} inside a multi-byte character (span() = {}..{}): the refused position was stored",
                                        off, span.0, span.1));
                                }
                                stats.hit("b2_remainder_in_range");
                            }
                        }
                    }
                }
                Ok(())
            }

            /// After a caught panic: re-read position and extras from the handle; a valid range
            /// resynchronises the model, anything else marks the handle corrupt.
            fn resync(h: &mut H, m: &mut M, bytes: &[u8]) {
                let (s, e) = with_lexer!(h, l => (l.span().start, l.span().end));
                m.ex = extras_of(h);
                m.start = s;
                m.end = e;
                let is_str = <$Src as SrcKind>::IS_STR;
                m.corrupt = !(s <= e && is_boundary(bytes, is_str, s) && is_boundary(bytes, is_str, e));
                m.fault_seen = true;
            }

            pub fn exec(pair: &str, source: &[u8], source2: &[u8], zero_prefix: u64, partial: bool, extras: ExM, mut steps: StepSource, faults: bool) -> Outcome {
                let mut stats = Stats::default();
                let mut done: Vec<Step> = Vec::new();
                // exact-size private allocation
                // one huge source at a time: 16 workers x 4 GiB of address space could be refused by the kernel
                if zero_prefix > 0 { stats.hit("probe_run_on_a_source_beyond_4_gib"); }
                let _huge_guard = if zero_prefix > 0 { Some(HUGE_SOURCE_LOCK.lock().unwrap_or_else(|e| e.into_inner())) } else { None };
                let owned = match if zero_prefix > 0 { <$Src as SrcKind>::owned_prefixed(zero_prefix as usize, source) } else { <$Src as SrcKind>::owned(source) } {
                    Some(s) => s,
                    None => {
                        eprintln!("api-sim: source of a str pair is not valid UTF-8");
                        std::process::exit(2);
                    }
                };
                let src: &$Src = <$Src as SrcKind>::view(&owned);
                let bytes = <$Src as SrcKind>::as_bytes_(src);
                let is_str = <$Src as SrcKind>::IS_STR;
                let owned2 = match <$Src as SrcKind>::owned(source2) {
                    Some(s) => s,
                    None => {
                        eprintln!("api-sim: second source of a str pair is not valid UTF-8");
                        std::process::exit(2);
                    }
                };
                let src2: &$Src = <$Src as SrcKind>::view(&owned2);
                let srcs: [&$Src; 2] = [src, src2];
                let bytes_all: [&[u8]; 2] = [bytes, <$Src as SrcKind>::as_bytes_(src2)];

                let ex0 = ExM { force: extras.force && faults, ..extras };
                // a constructor is code under test too: if it panics on a source that is perfectly legal, that is the verdict
                let first = catch(|| if partial {
                    Lexer::partial_with_extras(src, <$EA as Ex>::from_model(ex0))
                } else {
                    Lexer::with_extras(src, <$EA as Ex>::from_model(ex0))
                });
                let first = match first {
                    Ok(l) => l,
                    Err(p) => {
                        return Outcome {
                            scenario: Scenario { pair: pair.to_string(), source: source.to_vec(), source2: source2.to_vec(), zero_prefix, partial, extras, steps: done },
                            stats,
                            violation: Some(violation!("NEW-panic", 0, "init", "", "constructing a lexer over a {}-byte source panicked: {}", bytes.len(), p)),
                        };
                    }
                };
                let mut handles: Vec<H> = vec![H::LA(first)];
                let mut models: Vec<M> = vec![M {
                    src: 0, def: 0, start: 0, end: 0, prefix: partial, ex: ex0, spanned: false, alive: true, corrupt: false,
                    bumped_since_next: false, last_none: false, fault_seen: false,
                }];
                let mut violation: Option<Violation> = None;
                let mut stepno = 0usize;

                if let Err(v) = sweep(&mut handles, &models, &srcs, &mut stats, 0, "init") {
                    violation = Some(v);
                }

                while violation.is_none() {
                    let step = match &mut steps {
                        StepSource::Replay(it) => match it.next() { Some(s) => s.clone(), None => break },
                        StepSource::Gen { rng, remaining } => {
                            if *remaining == 0 { break; }
                            *remaining -= 1;
                            if zero_prefix > 0 && done.is_empty() {
                                // a huge source: first of all bump over the zero bytes (lexing 4 GiB of them is not the point)
                                Step { h: 0, op: Op::Bump(zero_prefix) }
                            } else {
                                gen_step(rng, &models, &bytes_all, is_str, faults)
                            }
                        }
                    };
                    done.push(step.clone());
                    stepno = done.len();
                    let h = step.h;
                    if let Op::Open2(p2) = step.op {
                        if models.iter().filter(|m| m.alive).count() >= 6 {
                            stats.hit("skipped_too_many_handles");
                            continue;
                        }
                        let ex2 = ExM { force: false, ..extras };
                        handles.push(H::LA(if p2 { Lexer::partial_with_extras(src2, <$EA as Ex>::from_model(ex2)) } else { Lexer::with_extras(src2, <$EA as Ex>::from_model(ex2)) }));
                        models.push(M { src: 1, def: 0, start: 0, end: 0, prefix: p2, ex: ex2, spanned: false, alive: true, corrupt: false,
                            bumped_since_next: false, last_none: false, fault_seen: false });
                        stats.hit("op_open_lexer_over_second_source");
                        if let Err(v) = sweep(&mut handles, &models, &srcs, &mut stats, stepno, "Open2") {
                            violation = Some(v);
                        }
                        continue;
                    }
                    if h >= handles.len() || !models[h].alive {
                        stats.hit("skipped_dead_or_missing_handle");
                        continue;
                    }
                    // everything below concerns handle h: its source
                    let src: &$Src = srcs[models[h].src as usize];
                    let bytes: &[u8] = bytes_all[models[h].src as usize];
                    let len = bytes.len();
                    let live_now = models.iter().filter(|m| m.alive).count();
                    stats.max_live = stats.max_live.max(live_now);
                    if models[h].fault_seen {
                        stats.op_after_fault_same_handle = true;
                    }
                    let opkind: String = match &step.op { Op::Bump(_) => "Bump".into(), Op::SetExtras(_) => "SetExtras".into(), Op::CloneFrom(_) => "CloneFrom".into(), Op::Open2(_) => "Open2".into(), o => format!("{:?}", o) };
                    let mut executed = true;

                    match step.op.clone() {
                        Op::Next | Op::InnerNext => {
                            let inner = step.op == Op::InnerNext;
                            if inner && !models[h].spanned {
                                stats.hit("skipped_inapplicable");
                                continue;
                            }
                            if models[h].corrupt {
                                stats.hit("skipped_next_on_corrupt_handle");
                                continue;
                            }
                            let m = models[h].clone();
                            let expected = expect_next(src, &m);
                            // (item, span reported by SpannedIter if any)
                            let actual: Result<(String, Option<(usize, usize)>), String> = catch(|| match &mut handles[h] {
                                H::LA(l) => (format!("{:?}", l.next()), None),
                                H::LB(l) => (format!("{:?}", l.next()), None),
                                H::SA(s) => {
                                    if inner {
                                        (format!("{:?}", (**s).next()), None)
                                    } else {
                                        match s.next() {
                                            Some((item, sp)) => (format!("{:?}", Some(item)), Some((sp.start, sp.end))),
                                            None => ("None".to_string(), None),
                                        }
                                    }
                                }
                                H::SB(s) => {
                                    if inner {
                                        (format!("{:?}", (**s).next()), None)
                                    } else {
                                        match s.next() {
                                            Some((item, sp)) => (format!("{:?}", Some(item)), Some((sp.start, sp.end))),
                                            None => ("None".to_string(), None),
                                        }
                                    }
                                }
                                H::Dead => unreachable!(),
                            });
                            stats.hit(if inner { "op_inner_next" } else if m.spanned { "op_spanned_next" } else { "op_next" });
                            if m.last_none { stats.hit("probe_next_after_none"); }
                            match (expected, actual) {
                                (Ok((eitem, espan, eex)), Ok((aitem, aspan))) => {
                                    if eitem != aitem {
                                        violation = Some(violation!("NEXT-item", stepno, opkind, format!("def{}", m.def),
                                            "handle {} (def {}, {} at {}..{}): next() = {} but a fresh lexer in the same state yields {}",
                                            h, m.def, if m.prefix { "partial" } else { "ordinary" }, m.start, m.end, aitem, eitem));
                                    } else if let (Some(sp), true) = (aspan, aitem != "None") {
                                        if sp != espan {
                                            violation = Some(violation!("SPANNED-span", stepno, opkind, format!("def{}", m.def),
                                                "handle {}: SpannedIter::next() paired {} with span {}..{} but the item's span is {}..{}",
                                                h, aitem, sp.0, sp.1, espan.0, espan.1));
                                        }
                                    }
                                    if violation.is_none()
                                        && !(espan.0 <= espan.1 && is_boundary(bytes, is_str, espan.0) && is_boundary(bytes, is_str, espan.1))
                                    {
                                        // both the handle and the fresh lexer ended up outside the source:
                                        // a bump from inside a callback returned normally although illegal
                                        violation = Some(violation!("NEXT-invalid-span", stepno, opkind, format!("def{}", m.def),
                                            "handle {} (def {}): next() = {} left span {}..{} which is not a valid range of the {}-byte source (extras {:?})",
                                            h, m.def, aitem, espan.0, espan.1, len, m.ex));
                                    }
                                    let mm = &mut models[h];
                                    mm.start = espan.0;
                                    mm.end = espan.1;
                                    mm.ex = eex;
                                    mm.bumped_since_next = false;
                                    mm.last_none = eitem == "None";
                                    if mm.last_none && mm.prefix && espan.1 < len {
                                        stats.hit("probe_partial_none_with_pending_bytes");
                                    }
                                    if eex.count != m.ex.count { stats.hit("probe_callback_changed_extras"); }
                                    stats.first_next_seen = true;
                                }
                                (Err(_), Err(_)) => {
                                    // the fault was raised from inside a callback, on both sides
                                    stats.hit("fault_fired_bump_inside_callback");
                                    resync(&mut handles[h], &mut models[h], bytes);
                                }
                                (Ok((eitem, ..)), Err(p)) => {
                                    violation = Some(violation!("NEXT-panic", stepno, opkind, format!("def{}", m.def),
                                        "handle {} (def {}): next() panicked ({}) but a fresh lexer in the same state yields {}", h, m.def, p, eitem));
                                }
                                (Err(p), Ok((aitem, _))) => {
                                    violation = Some(violation!("NEXT-item", stepno, opkind, format!("def{}", m.def),
                                        "handle {} (def {}): next() = {} but a fresh lexer in the same state panics ({})", h, m.def, aitem, p));
                                }
                            }
                        }
                        Op::Bump(n) => {
                            let m = models[h].clone();
                            let legal = legal_bump(bytes, is_str, m.end, n);
                            if legal.is_none() && !faults {
                                stats.hit("skipped_illegal_bump_in_fault_free_mode");
                                continue;
                            }
                            if n > usize::MAX as u64 { continue; }
                            let r = catch(|| with_lexer!(&mut handles[h], l => l.bump(n as usize)));
                            match (legal, r) {
                                (Some(e), Ok(())) => {
                                    stats.hit("op_bump_legal");
                                    if m.spanned { stats.hit("probe_derefmut_bump_on_spanned"); }
                                    if e == m.end { stats.hit("probe_bump_zero"); }
                                    if e == len && n > 0 { stats.hit("probe_bump_to_exact_end"); }
                                    models[h].end = e;
                                    models[h].bumped_since_next = true;
                                }
                                (Some(_), Err(p)) => {
                                    violation = Some(violation!("B1-panic", stepno, opkind, "legal",
                                        "handle {}: bump({}) from end {} on a {}-byte source is legal but panicked: {}", h, n, m.end, len, p));
                                }
                                (None, Ok(())) => {
                                    let class = fault_class(bytes, is_str, m.start, m.end, n);
                                    let sp = with_lexer!(&mut handles[h], l => l.span());
                                    violation = Some(violation!("B1-returned", stepno, opkind, class,
                                        "handle {}: bump({}) from span {}..{} on a {}-byte source must panic ({}) but returned normally, leaving span {}..{}",
                                        h, n, m.start, m.end, len, class, sp.start, sp.end));
                                }
                                (None, Err(_)) => {
                                    let class = fault_class(bytes, is_str, m.start, m.end, n);
                                    stats.hit(match class {
                                        "inside_codepoint" => "fault_fired_inside_codepoint",
                                        "past_end_near" => "fault_fired_past_end_near",
                                        "past_end_far" => "fault_fired_past_end_far",
                                        "overflow_wraps_in_range" => "fault_fired_overflow_wraps_in_range",
                                        "overflow_wraps_in_range_before_start" => "fault_fired_overflow_wraps_in_range_before_start",
                                        _ => "fault_fired_overflow_wraps_out_of_range",
                                    });
                                    if m.spanned { stats.hit("fault_fired_through_derefmut_of_spanned"); }
                                    if m.last_none { stats.hit("fault_fired_after_none"); }
                                    if m.prefix { stats.hit("fault_fired_on_partial_handle"); }
                                    resync(&mut handles[h], &mut models[h], bytes);
                                    if models[h].corrupt { stats.hit("probe_span_invalid_after_failed_bump"); }
                                }
                            }
                        }
                        Op::Clone => {
                            if live_now >= 6 {
                                stats.hit("skipped_too_many_handles");
                                continue;
                            }
                            let c = catch(|| match &handles[h] {
                                H::LA(l) => H::LA(l.clone()),
                                H::LB(l) => H::LB(l.clone()),
                                H::SA(s) => H::SA(s.clone()),
                                H::SB(s) => H::SB(s.clone()),
                                H::Dead => unreachable!(),
                            });
                            match c {
                                Ok(c) => {
                                    handles.push(c);
                                    let m = models[h].clone();
                                    if m.start < m.end { stats.hit("probe_clone_mid_token"); }
                                    if m.last_none && m.prefix { stats.hit("probe_partial_none_then_clone"); }
                                    if stats.first_next_seen { stats.clone_or_morph_after_next = true; }
                                    models.push(m);
                                    stats.hit("op_clone");
                                }
                                Err(p) => violation = Some(violation!("CLONE-panic", stepno, opkind, "", "clone() panicked: {}", p)),
                            }
                        }
                        Op::Open2(_) => unreachable!("handled above"),
                        Op::CloneFrom(src) => {
                            if src >= handles.len() || src == h || !models[src].alive || models[src].def != models[h].def || models[src].spanned != models[h].spanned {
                                stats.hit("skipped_inapplicable");
                                continue;
                            }
                            // take the destination out so that both can be borrowed
                            let mut dst = std::mem::replace(&mut handles[h], H::Dead);
                            let r = catch(|| match (&mut dst, &handles[src]) {
                                (H::LA(d), H::LA(s)) => d.clone_from(s),
                                (H::LB(d), H::LB(s)) => d.clone_from(s),
                                (H::SA(d), H::SA(s)) => d.clone_from(s),
                                (H::SB(d), H::SB(s)) => d.clone_from(s),
                                _ => unreachable!("kinds were compared through the models"),
                            });
                            handles[h] = dst;
                            match r {
                                Ok(()) => {
                                    let keep_fault = models[h].fault_seen;
                                    let m_src_before = models[h].src;
                                    models[h] = models[src].clone();
                                    models[h].fault_seen = keep_fault || models[src].fault_seen;
                                    if models[src].start == models[h].start { stats.hit("probe_clone_from_same_position_other_extras"); }
                                    if models[src].src != m_src_before { stats.hit("probe_clone_from_handle_over_the_other_source"); }
                                    if stats.first_next_seen { stats.clone_or_morph_after_next = true; }
                                    stats.hit("op_clone_from");
                                }
                                Err(p) => violation = Some(violation!("CLONE-panic", stepno, opkind, "", "clone_from() panicked: {}", p)),
                            }
                        }
                        Op::Morph => {
                            if models[h].spanned {
                                stats.hit("skipped_inapplicable");
                                continue;
                            }
                            let old = std::mem::replace(&mut handles[h], H::Dead);
                            let new = catch(move || match old {
                                H::LA(l) => H::LB(l.morph()),
                                H::LB(l) => H::LA(l.morph()),
                                _ => unreachable!(),
                            });
                            match new {
                                Ok(n) => {
                                    handles[h] = n;
                                    models[h].def ^= 1;
                                    if models[h].bumped_since_next { stats.hit("probe_morph_after_bump"); }
                                    if models[h].prefix { stats.hit("probe_morph_partial_handle"); }
                                    if stats.first_next_seen { stats.clone_or_morph_after_next = true; }
                                    stats.hit("op_morph");
                                }
                                Err(p) => violation = Some(violation!("MORPH-panic", stepno, opkind, "", "morph() panicked: {}", p)),
                            }
                        }
                        Op::Spanned => {
                            if models[h].spanned {
                                stats.hit("skipped_inapplicable");
                                continue;
                            }
                            let old = std::mem::replace(&mut handles[h], H::Dead);
                            handles[h] = match old {
                                H::LA(l) => H::SA(l.spanned()),
                                H::LB(l) => H::SB(l.spanned()),
                                _ => unreachable!(),
                            };
                            models[h].spanned = true;
                            stats.hit("op_spanned");
                        }
                        Op::SetExtras(x) => {
                            let x = ExM { force: x.force && faults, ..x };
                            match &mut handles[h] {
                                H::LA(l) => l.extras = <$EA as Ex>::from_model(x),
                                H::LB(l) => l.extras = <$EB as Ex>::from_model(x),
                                H::SA(s) => s.extras = <$EA as Ex>::from_model(x),
                                H::SB(s) => s.extras = <$EB as Ex>::from_model(x),
                                H::Dead => unreachable!(),
                            }
                            models[h].ex = x;
                            stats.hit("op_set_extras");
                        }
                        Op::Drop => {
                            handles[h] = H::Dead;
                            models[h].alive = false;
                            stats.hit("op_drop");
                        }
                        Op::Drain => {
                            if models[h].spanned || models[h].corrupt {
                                stats.hit("skipped_inapplicable");
                                continue;
                            }
                            let cap = len + 4;
                            type Pairs = Vec<(String, (usize, usize))>;
                            // manual iteration first, span validity checked after every item: once a span leaves the source the
                            // lexer's state is corrupt and anything read further would be garbage (and differ from run to run)
                            let valid = |s: usize, e: usize| s <= e && is_boundary(bytes, is_str, s) && is_boundary(bytes, is_str, e);
                            let mut bad_span: Option<(String, (usize, usize))> = None;
                            let manual: Result<Result<Pairs, String>, String> = catch(|| match &handles[h] {
                                H::LA(l) => {
                                    let mut c2 = l.clone();
                                    catch(|| {
                                        let mut v = Vec::new();
                                        while let Some(t) = c2.next() {
                                            let sp = (c2.span().start, c2.span().end);
                                            if !valid(sp.0, sp.1) { bad_span = Some((format!("{:?}", t.map(|_| ())), sp)); break; }
                                            v.push((format!("{:?}", t), sp));
                                            if v.len() >= cap { break; }
                                        }
                                        v
                                    })
                                }
                                H::LB(l) => {
                                    let mut c2 = l.clone();
                                    catch(|| {
                                        let mut v = Vec::new();
                                        while let Some(t) = c2.next() {
                                            let sp = (c2.span().start, c2.span().end);
                                            if !valid(sp.0, sp.1) { bad_span = Some((format!("{:?}", t.map(|_| ())), sp)); break; }
                                            v.push((format!("{:?}", t), sp));
                                            if v.len() >= cap { break; }
                                        }
                                        v
                                    })
                                }
                                _ => unreachable!(),
                            });
                            if let Some((item, sp)) = bad_span {
                                stats.hit("op_drain");
                                violation = Some(violation!("NEXT-invalid-span", stepno, opkind, format!("def{}", models[h].def),
                                    "handle {}: iterating a clone, next() = {} left span {}..{} which is not a valid range of the {}-byte source (extras {:?})",
                                    h, item, sp.0, sp.1, len, models[h].ex));
                                continue;
                            }
                            let r: Result<(Result<Pairs, String>, Result<Pairs, String>), String> = match manual {
                                Err(p) => Err(p),
                                Ok(b) => catch(|| match &handles[h] {
                                    H::LA(l) => {
                                        let c1 = l.clone();
                                        (catch(move || c1.spanned().take(cap).map(|(t, s)| (format!("{:?}", t), (s.start, s.end))).collect::<Vec<_>>()), b)
                                    }
                                    H::LB(l) => {
                                        let c1 = l.clone();
                                        (catch(move || c1.spanned().take(cap).map(|(t, s)| (format!("{:?}", t), (s.start, s.end))).collect::<Vec<_>>()), b)
                                    }
                                    _ => unreachable!(),
                                }),
                            };
                            stats.hit("op_drain");
                            match r {
                                Err(p) => violation = Some(violation!("CLONE-panic", stepno, opkind, "", "clone() panicked: {}", p)),
                                Ok((Ok(a), Ok(b))) => {
                                    if a != b {
                                        violation = Some(violation!("SPANNED-collect", stepno, opkind, format!("def{}", models[h].def),
                                            "handle {}: spanned().collect() = {:?} but manual iteration of a clone gives {:?}", h, a, b));
                                    } else if a.len() >= cap {
                                        stats.hit("probe_drain_hit_cap");
                                    } else {
                                        // the same pairs through the other ways of consuming an iterator
                                        let mm = catch(|| match &handles[h] {
                                            H::LA(l) => adaptor_mismatch(l, &b),
                                            H::LB(l) => adaptor_mismatch(l, &b),
                                            _ => unreachable!(),
                                        });
                                        stats.hit("op_drain_through_last_nth_count_fold");
                                        match mm {
                                            Ok(None) => {}
                                            Ok(Some(what)) => violation = Some(violation!("SPANNED-adaptor", stepno, opkind, format!("def{}", models[h].def), "handle {}: {}", h, what)),
                                            Err(p) => violation = Some(violation!("SPANNED-adaptor", stepno, opkind, format!("def{}", models[h].def),
                                                "handle {}: consuming a clone through last()/nth()/count()/fold() panicked although manual iteration did not: {}", h, p)),
                                        }
                                    }
                                }
                                Ok((Err(_), Err(_))) => stats.hit("fault_fired_bump_inside_callback_during_drain"),
                                Ok((a, b)) => {
                                    violation = Some(violation!("SPANNED-collect", stepno, opkind, format!("def{}", models[h].def),
                                        "handle {}: spanned().collect() and manual iteration disagree on panicking: {:?} vs {:?}", h, a.is_ok(), b.is_ok()));
                                }
                            }
                        }
                    }
                    if executed {
                        executed = false;
                        let _ = executed;
                        stats.steps_executed += 1;
                    }
                    if violation.is_none() {
                        if let Err(v) = sweep(&mut handles, &models, &srcs, &mut stats, stepno, &opkind) {
                            violation = Some(v);
                        }
                    }
                }
                let _ = stepno;
                Outcome {
                    scenario: Scenario { pair: pair.to_string(), source: source.to_vec(), source2: source2.to_vec(), zero_prefix, partial, extras, steps: done },
                    stats,
                    violation,
                }
            }
        }
    };
}

pair_sim!(pair_modes, Outer, Inner, ExA, ExB, str);
pair_sim!(pair_bytes, BinA, BinB, ExA, ExB, [u8]);
pair_sim!(pair_callbacks, CbA, CbB, ExA, ExB, str);
pair_sim!(pair_anchors, AnchA, AnchB, ExA, ExB, str);
pair_sim!(pair_manual, ManA, ManB, ExA, ExB, String);

const PAIRS: [&str; 5] = ["modes", "bytes", "callbacks", "anchors", "manual"];

static HUGE_SOURCE_LOCK: std::sync::Mutex<()> = std::sync::Mutex::new(());

fn exec_pair(pair: &str, source: &[u8], source2: &[u8], zero_prefix: u64, partial: bool, extras: ExM, steps: StepSource, faults: bool) -> Outcome {
    match pair {
        "modes" => pair_modes::exec(pair, source, source2, zero_prefix, partial, extras, steps, faults),
        "bytes" => pair_bytes::exec(pair, source, source2, zero_prefix, partial, extras, steps, faults),
        "callbacks" => pair_callbacks::exec(pair, source, source2, zero_prefix, partial, extras, steps, faults),
        "anchors" => pair_anchors::exec(pair, source, source2, zero_prefix, partial, extras, steps, faults),
        "manual" => pair_manual::exec(pair, source, source2, zero_prefix, partial, extras, steps, faults),
        _ => {
            eprintln!("api-sim: unknown pair {pair:?}");
            std::process::exit(2)
        }
    }
}

fn replay(sc: &Scenario, faults: bool) -> Outcome {
    exec_pair(&sc.pair, &sc.source, &sc.source2, sc.zero_prefix, sc.partial, sc.extras, StepSource::Replay(sc.steps.iter()), faults)
}

// ---------------------------------------------------------------------------------------------
// Workload generation
// ---------------------------------------------------------------------------------------------

const FRAG_MODES: &[&str] = &[
    "\"", "abc", "x1_y", "żółć", "42", "007", " ", "\n", "\t ", "//", "// c\n", "€", "#", "\\n", "\\\"", "\\u{00f4}", "\\u{",
    "\\", "W", "é", "𝔸", "9", "/", "##", "a\"b",
];
const FRAG_CALLBACKS: &[&str] = &[
    "abc", "z", "#", "12", "123", "7", "!", "!!", "?", " ", "\n", "  ", "/*", "*/", "/* x */", "é€𝔸", "é", "€", "𝔸", "αβγ", "ω",
    "//", "// x\n", "/", "*", "a1b2", "#é", "<<", "<< ab ?!", "?!", "<<a",
];
const FRAG_ANCHORS: &[&str] = &[
    "x", "xx", "xxx", "y", "yy", "z", "if", "if_", "iff", "i", "abc", "_", " ", "\t", "\n", "#", "# c", "#c\n", "12", "end", "endx", "en", "xy", "yx\n", "y\n", "é",
];
const FRAG_BYTES: &[&[u8]] = &[
    b"\xCA\xFE\xBE\xEF", b"\xCA\xFE", b"\xA0\xA5\xAF", b"\xA1", b"abc", b"q", b"\x00", b"\x00\x00", b" ", b"\t", b"\xFF\x01", b"\xFF",
    b"\x80\x90", b"aa", b"a1", b"zz9", b"\xEF", b"\x10",
];

/// Characters at the extremes of every UTF-8 byte class: first and last continuation byte (0x80, 0xBF) in every position,
/// first and last lead byte of every length (C2, DF, E0, EF, F0, F4), the neighbours of the surrogate gap, the byte order
/// mark. A boundary predicate that is wrong for one byte value is wrong for one of these.
const UTF8_EDGES: &[&str] = &[
    "\u{80}", "\u{BF}", "\u{C0}", "\u{FF}", "\u{7FF}", "\u{800}", "\u{83F}", "\u{FFF}", "\u{1000}", "\u{D7FF}", "\u{E000}", "\u{FEFF}", "\u{FFFD}",
    "\u{FFFF}", "\u{10000}", "\u{1003F}", "\u{1F4BF}", "\u{3FFFF}", "\u{40000}", "\u{FFFFF}", "\u{100000}", "\u{10FFFF}",
];

fn gen_source(rng: &mut Rng, pair: &str) -> Vec<u8> {
    let mut out = Vec::new();
    // a per-source choice (swarm): no edge characters, a few, or many
    let edge_rate = *rng.pick(&[0u32, 0, 1, 1, 4]);
    let target = match rng.below(64) {
        0..=3 => 0,
        4..=11 => rng.range(1, 3),
        12..=35 => rng.range(4, 24),
        36..=60 => rng.range(25, 48),
        // occasionally long sources: offsets beyond 255 and beyond 65535
        61 | 62 => rng.range(250, 700),
        _ => if rng.chance(1, 3) { rng.range(65_500, 66_000) } else { rng.range(250, 520) },
    };
    while out.len() < target {
        if pair != "bytes" && edge_rate > 0 && rng.chance(edge_rate, 8) {
            out.extend_from_slice(rng.pick(UTF8_EDGES).as_bytes());
            continue;
        }
        match pair {
            "modes" => out.extend_from_slice(rng.pick(FRAG_MODES).as_bytes()),
            "callbacks" => out.extend_from_slice(rng.pick(FRAG_CALLBACKS).as_bytes()),
            "anchors" => out.extend_from_slice(rng.pick(FRAG_ANCHORS).as_bytes()),
            "manual" => out.extend_from_slice(rng.pick(FRAG_CALLBACKS).as_bytes()),
            _ => {
                if rng.chance(1, 5) {
                    out.push(rng.below(256) as u8);
                } else {
                    out.extend_from_slice(*rng.pick(FRAG_BYTES));
                }
            }
        }
    }
    out
}

fn run_one(seed: u64, mode: &str, index: u64, want_sample: bool) -> RunReport {
    let faults = mode == "c15";
    let mut rng = Rng::for_run(seed, if faults { "api-sim/c15" } else { "api-sim/c14" }, index);
    let pair = PAIRS[(index % 5) as usize];
    let source = gen_source(&mut rng, pair);
    // the second source: usually short and different, sometimes the same text (in another allocation), sometimes empty
    let source2 = match rng.below(6) {
        0 => source.clone(),
        1 => Vec::new(),
        _ => { let mut s2 = gen_source(&mut rng, pair); if s2.len() > 64 { let mut k = 64; while k > 0 && (s2[k] & 0xC0) == 0x80 { k -= 1; } s2.truncate(k); } s2 }
    };
    let partial = if pair == "anchors" { rng.chance(2, 3) } else { rng.chance(1, 3) };
    let extras = ExM { count: rng.below(5) as u32, request: rng.below(4) as u64, force: false, tag: rng.below(256) as u8 };
    let nsteps = match rng.below(6) {
        0 => rng.range(1, 4),
        1..=3 => rng.range(5, 20),
        _ => rng.range(21, 40),
    };
    // one run in a few thousand reads a source of a little over 4 GiB (lazily mapped zero pages + a short tail): offsets
    // that do not fit 32 bits
    let zero_prefix: u64 = if index % 4001 == 17 && source.len() <= 64 { (1u64 << 32) - rng.below(48) as u64 } else { 0 };
    let out = exec_pair(pair, &source, &source2, zero_prefix, partial, extras, StepSource::Gen { rng: &mut rng, remaining: nsteps }, faults);
    report(out, faults, seed, index, want_sample)
}

fn report(out: Outcome, faults: bool, seed: u64, index: u64, want_sample: bool) -> RunReport {
    let st = &out.stats;
    let faults_fired: u64 = st.c.iter().filter(|(k, _)| k.starts_with("fault_fired_")).map(|(_, v)| *v).sum();
    let nontrivial = if faults {
        faults_fired > 0 && st.op_after_fault_same_handle
    } else {
        st.max_live >= 2 && st.clone_or_morph_after_next
    };
    let mut counters: Vec<(&'static str, u64)> = st.c.iter().map(|(k, v)| (*k, *v)).collect();
    counters.push(("runs_with_fault_fired", (faults_fired > 0) as u64));
    let sample = if want_sample {
        Some(json!({"run_index": index, "scenario": out.scenario.to_json(), "violation": out.violation.as_ref().map(|v| v.what.clone())}))
    } else {
        None
    };
    let failure = out.violation.as_ref().map(|v| Failure {
        class: format!("{}/{}/{}", v.oracle, v.opkind, v.detail),
        what: v.what.clone(),
        replay: replay_json(&out.scenario, v, faults, seed, index, false),
    });
    RunReport { trace_hash: out.scenario.hash(), nontrivial, steps: st.steps_executed, counters, sample, failure }
}

fn property_of(faults: bool) -> &'static str {
    if faults { "C15" } else { "C14" }
}

fn signature(sc: &Scenario, v: &Violation, faults: bool) -> String {
    format!("{}/{}/{}/{}/{}", property_of(faults), v.oracle, sc.pair, v.opkind, v.detail)
}

fn replay_json(sc: &Scenario, v: &Violation, faults: bool, seed: u64, index: u64, minimised: bool) -> Value {
    json!({
        "format": 1,
        "property": property_of(faults),
        "engine": "api-sim",
        "mode": if faults { "c15" } else { "c14" },
        "oracle": v.oracle,
        "verif_seed": seed,
        "run_index": index,
        "minimised": minimised,
        "build": build_info!(),
        "scenario": sc.to_json(),
        "violation": {"step": v.step, "what": v.what, "signature": signature(sc, v, faults)},
    })
}

// ---------------------------------------------------------------------------------------------
// Minimisation
// ---------------------------------------------------------------------------------------------

fn same_class(a: &Violation, b: &Violation) -> bool {
    a.oracle == b.oracle && a.opkind == b.opkind
}

fn minimise(sc: &Scenario, v: &Violation, faults: bool) -> (Scenario, Violation) {
    let mut best = sc.clone();
    let mut bestv = v.clone();
    let mut budget: u32 = 4000;
    // steps beyond the failing one are irrelevant
    best.steps.truncate(v.step.max(1).min(best.steps.len()));
    for _round in 0..3 {
        let before = (best.steps.len(), best.source.len());
        // 1. drop steps
        let base = best.clone();
        let steps = ddmin(&base.steps, &mut budget, |cand| {
            let t = Scenario { steps: cand.to_vec(), ..base.clone() };
            matches!(replay(&t, faults).violation, Some(ref w) if same_class(w, v))
        });
        best.steps = steps;
        // 2. shorten the source from the end and from the front (keeping UTF-8 validity for str pairs)
        let is_str = best.pair != "bytes";
        let mut changed = true;
        while changed && budget > 0 {
            changed = false;
            for cut_front in [false, true] {
                let n = best.source.len();
                for k in (1..=n.min(8)).rev() {
                    if k > best.source.len() { continue; }
                    let cand_src: Vec<u8> = if cut_front { best.source[k..].to_vec() } else { best.source[..best.source.len() - k].to_vec() };
                    if is_str && std::str::from_utf8(&cand_src).is_err() { continue; }
                    if budget == 0 { break; }
                    budget -= 1;
                    let t = Scenario { source: cand_src, ..best.clone() };
                    if matches!(replay(&t, faults).violation, Some(ref w) if same_class(w, v)) {
                        best = t;
                        changed = true;
                        break;
                    }
                }
            }
        }
        // 3. simplify: ordinary instead of partial, default extras
        for variant in 0..2 {
            let mut t = best.clone();
            if variant == 0 { t.partial = false; } else { t.extras = ExM::default(); }
            if budget > 0 {
                budget -= 1;
                if matches!(replay(&t, faults).violation, Some(ref w) if same_class(w, v)) { best = t; }
            }
        }
        if (best.steps.len(), best.source.len()) == before { break; }
    }
    let out = replay(&best, faults);
    if let Some(w) = out.violation {
        best = out.scenario; // only the steps actually consumed
        bestv = w;
    }
    (best, bestv)
}

// ---------------------------------------------------------------------------------------------
// main
// ---------------------------------------------------------------------------------------------

fn main() {
    install_quiet_panic_hook();
    let args = Args::parse();
    let mode = args.get("mode").unwrap_or("c14").to_string();
    if mode != "c14" && mode != "c15" {
        eprintln!("--mode must be c14 or c15");
        std::process::exit(2);
    }
    let faults = mode == "c15";
    let out_path = args.get("out").map(|s| s.to_string());

    if let Some(path) = args.get("replay") {
        let v = read_json(path);
        let sc = match v.get("scenario").and_then(Scenario::from_json) {
            Some(s) => s,
            None => {
                eprintln!("api-sim: {path} is not a usable replay file");
                std::process::exit(2)
            }
        };
        let faults = v.get("mode").and_then(|m| m.as_str()).map(|m| m == "c15").unwrap_or(faults);
        let out = replay(&sc, faults);
        let result = match &out.violation {
            Some(w) => json!({"reproduced": true, "signature": signature(&out.scenario, w, faults), "what": w.what, "oracle": w.oracle, "step": w.step, "build": build_info!()}),
            None => json!({"reproduced": false, "build": build_info!()}),
        };
        println!("{}", result);
        if let Some(p) = out_path { write_json(&p, &result); }
        std::process::exit(if out.violation.is_some() { 1 } else { 0 });
    }

    let seed = args.num("seed", DEFAULT_SEED);
    let runs = args.num("runs", 10_000);
    let workers = args.num("workers", 16) as usize;
    let replay_dir = args.get("replay-dir").unwrap_or("/verif/replays").to_string();
    let tag = args.get("tag").unwrap_or("build").to_string();

    let batch = run_batch(runs, workers, (runs / 4).max(1), |i, s| run_one(seed, &mode, i, s));

    // minimise one representative per class, lowest run index first
    let mut failures_json = Vec::new();
    let mut unstable = 0u64;
    let mut reps: Vec<(&String, &(u64, Failure))> = batch.failures.iter().collect();
    reps.sort_by_key(|(_, (i, _))| *i);
    for (class, (index, fail)) in reps.into_iter().take(12) {
        let sc = Scenario::from_json(fail.replay.get("scenario").unwrap()).unwrap();
        let first = replay(&sc, faults);
        let Some(v) = first.violation else {
            // e.g. a verdict that depended on memory read through a corrupted lexer: not replayable, so not reported;
            // the runner treats a batch whose ONLY failures are unstable as a harness error
            eprintln!("api-sim: run {index} failed ({class}) but its recorded steps do not reproduce it: dropped");
            unstable += 1;
            continue;
        };
        let (msc, mv) = minimise(&first.scenario, &v, faults);
        let rj = replay_json(&msc, &mv, faults, seed, *index, true);
        let path = format!("{}/{}-{}-{}-{}.json", replay_dir, property_of(faults), tag, seed, index);
        write_json(&path, &rj);
        failures_json.push(json!({
            "class": class, "run_index": index, "signature": signature(&msc, &mv, faults), "what": mv.what, "replay": path,
            "steps_before": sc.steps.len(), "steps_after": msc.steps.len(), "source_len_before": sc.source.len(), "source_len_after": msc.source.len(),
        }));
    }

    let mut result = batch.to_json();
    result["engine"] = json!("api-sim");
    result["mode"] = json!(mode);
    result["seed"] = json!(seed);
    result["build"] = build_info!();
    result["tag"] = json!(tag);
    result["failures"] = json!(failures_json);
    result["failure_classes"] = json!(batch.failures.len());
    result["unstable_failure_classes"] = json!(unstable);
    match out_path {
        Some(p) => write_json(&p, &result),
        None => println!("{}", serde_json_pretty(&result)),
    }
}

fn serde_json_pretty(v: &Value) -> String {
    format!("{:#}", v)
}
