//! Token definitions driven by `api-sim`: three pairs `(A, B)` over one `Source` type whose
//! extras convert into each other, so that `morph` can go there and back.
//! Callbacks are deterministic functions of what the lexer shows them (`slice()`, `span()`,
//! `remainder()`, `extras`); several of them bump, skip, fail or count in `extras`.

use logos::{Filter, FilterResult, Lexer, Logos, Skip, Source};

/// Model-side view of the extras (what the reference model stores).
#[derive(Clone, Copy, Debug, Default, PartialEq, Eq, PartialOrd, Ord)]
pub struct ExM {
    /// incremented by some callbacks
    pub count: u32,
    /// number of bytes the `bump_request` callbacks try to bump by
    pub request: u64,
    /// bump by `request` even if that is not a legal bump (fault mode only)
    pub force: bool,
    pub tag: u8,
}

pub trait Ex: Clone + std::fmt::Debug {
    fn to_model(&self) -> ExM;
    fn from_model(m: ExM) -> Self;
    fn count_mut(&mut self) -> &mut u32;
}

#[derive(Clone, Debug, Default, PartialEq)]
pub struct ExA {
    pub count: u32,
    pub request: usize,
    pub force: bool,
    pub tag: u8,
}

/// Same information, different type and layout: `morph` goes through a real `Into`.
#[derive(Clone, Debug, Default, PartialEq)]
pub struct ExB {
    pub tag: u8,
    pub force: bool,
    pub request: usize,
    pub count: u32,
    pub pad: [u8; 3],
}

impl From<ExA> for ExB {
    fn from(a: ExA) -> ExB {
        ExB { tag: a.tag, force: a.force, request: a.request, count: a.count, pad: [0; 3] }
    }
}
impl From<ExB> for ExA {
    fn from(b: ExB) -> ExA {
        ExA { tag: b.tag, force: b.force, request: b.request, count: b.count }
    }
}
impl Ex for ExA {
    fn to_model(&self) -> ExM {
        ExM { count: self.count, request: self.request as u64, force: self.force, tag: self.tag }
    }
    fn from_model(m: ExM) -> Self {
        ExA { count: m.count, request: m.request as usize, force: m.force, tag: m.tag }
    }
    fn count_mut(&mut self) -> &mut u32 {
        &mut self.count
    }
}
impl Ex for ExB {
    fn to_model(&self) -> ExM {
        ExM { count: self.count, request: self.request as u64, force: self.force, tag: self.tag }
    }
    fn from_model(m: ExM) -> Self {
        ExB { count: m.count, request: m.request as usize, force: m.force, tag: m.tag, pad: [0; 3] }
    }
    fn count_mut(&mut self) -> &mut u32 {
        &mut self.count
    }
}

#[derive(Clone, Debug, Default, PartialEq)]
pub enum LexErr {
    #[default]
    Other,
    Bang,
    Odd(usize),
}

// ---- shared callbacks ------------------------------------------------------------------------

/// Bump by `extras.request` bytes if that is a legal bump, or unconditionally when
/// `extras.force` is set (the fault of C15 raised from inside generated code).
fn bump_request<'s, T>(lex: &mut Lexer<'s, T>)
where
    T: Logos<'s>,
    T::Extras: Ex,
{
    let m = lex.extras.to_model();
    *lex.extras.count_mut() += 1;
    let n = m.request as usize;
    if m.force {
        lex.bump(n);
    } else {
        let end = lex.span().end;
        if let Some(e) = end.checked_add(n) {
            if lex.source().is_boundary(e) {
                lex.bump(n);
            }
        }
    }
}

/// Consume up to and including the next `\n` (or to the end) using `remainder()`.
fn to_eol_str<'s, T>(lex: &mut Lexer<'s, T>)
where
    T: Logos<'s, Source = str>,
    T::Extras: Ex,
{
    let rem: &str = lex.remainder();
    let n = rem.find('\n').map(|i| i + 1).unwrap_or(rem.len());
    lex.bump(n);
    *lex.extras.count_mut() += 1;
}

/// Skip callback: consume a `*/`-terminated block (or everything) and skip it.
fn block_comment<'s, T>(lex: &mut Lexer<'s, T>) -> Skip
where
    T: Logos<'s, Source = str>,
    T::Extras: Ex,
{
    let rem: &str = lex.remainder();
    let n = rem.find("*/").map(|i| i + 2).unwrap_or(rem.len());
    lex.bump(n);
    *lex.extras.count_mut() += 100;
    Skip
}

/// Context-dependent lexing as the handbook describes it, from inside a callback: a clone of the lexer is morphed to the other
/// token type and driven up to its terminator (or to the end of the input: an unterminated block), then morphed back and put in
/// the place of the outer lexer; the item covers whatever span the inner lexer stopped at (an empty one at the end of input).
fn sub_lexer(lex: &mut Lexer<CbA>) -> u32 {
    let mut inner = lex.clone().morph::<CbB>();
    let mut n = 0;
    while let Some(t) = inner.next() {
        n += 1;
        if matches!(t, Ok(CbB::Marks)) {
            break;
        }
    }
    *lex = inner.morph();
    n
}

fn pair_cb(lex: &mut Lexer<BinB>) -> Result<u8, LexErr> {
    let s = lex.slice();
    if s[0] == s[1] {
        Err(LexErr::Odd(lex.span().start))
    } else {
        Ok(s[0])
    }
}

fn bang_cb(_: &mut Lexer<CbA>) -> Result<(), LexErr> {
    Err(LexErr::Bang)
}

fn chunk_cb(lex: &mut Lexer<CbB>) -> FilterResult<usize, LexErr> {
    let n = lex.slice().len();
    lex.extras.count += 1;
    match n % 3 {
        0 => FilterResult::Skip,
        1 => FilterResult::Emit(n),
        _ => FilterResult::Error(LexErr::Odd(n)),
    }
}

// ---- pair 1: str, lexer modes (outer / inner string lexer) ----------------------------------

#[derive(Logos, Debug, Clone, PartialEq)]
#[logos(extras = ExA)]
pub enum Outer {
    #[token("\"")]
    Quote,
    #[regex(r"\p{L}[\p{L}0-9_]*", |lex| { lex.extras.count += 1; })]
    Ident,
    #[regex("[0-9]+", |lex| lex.slice().parse::<u64>().ok())]
    Num(u64),
    #[regex(r"[ \t\n]+", logos::skip)]
    Ws,
    #[token("//", to_eol_str)]
    LineComment,
    #[token("€")]
    Euro,
    #[token("#", bump_request)]
    Hash,
}

#[derive(Logos, Debug, Clone, PartialEq)]
#[logos(extras = ExB)]
pub enum Inner {
    #[regex(r#"[^"\\]+"#)]
    Text,
    #[regex(r"\\.", priority = 3)]
    Escape,
    #[token("\\n")]
    EscapedNewline,
    #[regex(r"\\u\{[^}]*\}", |lex| { lex.extras.count += 1; lex.slice().len() })]
    EscapedCodepoint(usize),
    #[token("\"")]
    Close,
}

// ---- pair 2: bytes ---------------------------------------------------------------------------

#[derive(Logos, Debug, Clone, PartialEq)]
#[logos(utf8 = false, extras = ExA)]
pub enum BinA {
    #[token(b"\xCA\xFE\xBE\xEF")]
    CafeBeef,
    #[regex(b"[\xA0-\xAF]+", |lex| { lex.extras.count += 1; lex.slice().len() })]
    Aaa(usize),
    #[regex(b"[a-z]+")]
    Word,
    #[token(b"\x00", bump_request)]
    Zero,
    #[regex(b"[ \t]+", logos::skip)]
    Ws,
    #[regex(b"\xFF[\x00-\xFF]", |lex| lex.slice()[1])]
    Tagged(u8),
}

#[derive(Logos, Debug, Clone, PartialEq)]
#[logos(utf8 = false, extras = ExB, error = LexErr)]
pub enum BinB {
    #[regex(b"[a-z0-9]{2}", pair_cb)]
    Pair(u8),
    #[regex(b"[\x80-\xFF]+")]
    High,
    #[token(b"\x00\x00")]
    ZeroZero,
    #[regex(b"[ \t\x00]", |lex| { lex.extras.count += 1; Skip })]
    Sep,
}

// ---- pair 3: str, callback protocol ---------------------------------------------------------

#[derive(Logos, Debug, Clone, PartialEq)]
#[logos(extras = ExA, error = LexErr)]
pub enum CbA {
    #[regex("[a-z]+", |lex| { lex.extras.count += 1; lex.slice().len() as u32 })]
    Word(u32),
    #[token("#", bump_request)]
    Hash,
    #[regex("[0-9]+", |lex| if lex.slice().len() % 2 == 0 { Filter::Skip } else { Filter::Emit(()) })]
    OddDigits,
    #[token("!", bang_cb)]
    Bang,
    #[regex(r"\s+", logos::skip)]
    Ws,
    #[token("/*", block_comment)]
    Block,
    #[token("é€𝔸")]
    Multi,
    #[regex(r"\p{Greek}+", |lex| lex.slice().chars().count())]
    Greek(usize),
    #[token("<<", sub_lexer)]
    Sub(u32),
}

#[derive(Logos, Debug, Clone, PartialEq)]
#[logos(extras = ExB, error = LexErr)]
pub enum CbB {
    #[regex("[a-z0-9]+", chunk_cb)]
    Chunk(usize),
    #[token("#", bump_request)]
    Hash,
    #[regex("[!?]+", |lex| lex.slice().len() > 1)]
    Marks,
    #[token("//", to_eol_str)]
    LineComment,
    #[regex(r"[ \n]", logos::skip)]
    Ws,
    #[regex("[é€𝔸α-ω]")]
    NonAscii,
}

// ---- pair 4: str, look-around assertions and enum-level skips (partial mode matters most here) -----

#[derive(Logos, Debug, Clone, PartialEq)]
#[logos(extras = ExA)]
#[logos(skip(r"[ \t]+", priority = 2))]
pub enum AnchA {
    #[regex(r"x+$", priority = 4)]
    XEnd,
    #[regex("[xyz]", priority = 1)]
    One,
    #[regex(r"if(?-u:\b)", priority = 6)]
    If,
    #[regex("[a-w_]+", |lex| { lex.extras.count += 1; lex.slice().len() }, priority = 2)]
    Ident(usize),
    #[token("\n")]
    Nl,
    #[token("#", bump_request)]
    Hash,
}

#[derive(Logos, Debug, Clone, PartialEq)]
#[logos(extras = ExB)]
#[logos(skip(r"#[ -~]*", priority = 3))]
pub enum AnchB {
    #[regex(r"(?m)y+$", priority = 4)]
    YEol,
    #[regex("[a-z]+", priority = 2)]
    Word,
    #[regex("[0-9]+", |lex| { lex.extras.count += 10; }, priority = 2)]
    Num,
    #[token("\n")]
    Nl,
    #[token(" ")]
    Space,
    #[regex(r"end\z", priority = 8)]
    EndZ,
}

// ---- pair 5: hand-written `Logos` impls over a `String` source -------------------------------------
// The derive pins `Source` to `str` or `[u8]`; the library's blanket `impl<T: Deref> Source for T` is public API all the
// same, and only reachable this way. The lexers use nothing but the public `Lexer` API.

#[derive(Debug, Clone, PartialEq)]
pub enum ManA {
    Word,
    Digits(usize),
    Hash,
    Other(char),
}

#[derive(Debug, Clone, PartialEq)]
pub enum ManB {
    Char(char),
    Line,
}

impl<'s> Logos<'s> for ManA {
    type Error = LexErr;
    type Extras = ExA;
    type Source = String;

    fn lex(lex: &mut Lexer<'s, Self>) -> Option<Result<Self, LexErr>> {
        // skip blanks, then one token; in prefix mode a run that reaches the end of the buffer is not final
        let rem: &str = lex.remainder();
        let blanks = rem.len() - rem.trim_start_matches(' ').len();
        if blanks > 0 {
            lex.bump(blanks);
            // start the token after the blanks: a new `next()` would do the same, so model it as one call
            let _ = lex.span();
        }
        let rem: &str = lex.remainder();
        let c = rem.chars().next()?;
        let run = |pred: fn(char) -> bool| rem.len() - rem.trim_start_matches(pred).len();
        if c.is_alphabetic() {
            lex.bump(run(char::is_alphabetic));
            lex.extras.count += 1;
            Some(Ok(ManA::Word))
        } else if c.is_ascii_digit() {
            let n = run(|c| c.is_ascii_digit());
            lex.bump(n);
            Some(Ok(ManA::Digits(n)))
        } else if c == '#' {
            lex.bump(1);
            bump_request(lex);
            Some(Ok(ManA::Hash))
        } else if c == '!' {
            lex.bump(1);
            Some(Err(LexErr::Bang))
        } else {
            lex.bump(c.len_utf8());
            Some(Ok(ManA::Other(c)))
        }
    }
}

impl<'s> Logos<'s> for ManB {
    type Error = LexErr;
    type Extras = ExB;
    type Source = String;

    fn lex(lex: &mut Lexer<'s, Self>) -> Option<Result<Self, LexErr>> {
        let rem: &str = lex.remainder();
        let c = rem.chars().next()?;
        if c == '/' {
            let n = rem.find('\n').map(|i| i + 1).unwrap_or(rem.len());
            lex.bump(n);
            lex.extras.count += 10;
            Some(Ok(ManB::Line))
        } else {
            lex.bump(c.len_utf8());
            Some(Ok(ManB::Char(c)))
        }
    }
}
