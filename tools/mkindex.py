#!/usr/bin/env python3
"""Regenerate seeded/INDEX.md from the meta.json files."""
import json, os, glob
root = "/verif/seeded"
rows = []
for d in sorted(glob.glob(root + "/*/meta.json")):
    m = json.load(open(d)); i = os.path.basename(os.path.dirname(d))
    rnd = "adversarial" if "adversarial" in m.get("origin", "") else "independent"
    first = m.get("first_run")
    if not first:
        first = "missed, then caught after strengthening" if any("miss" in str(v).lower() or "exit 0" in str(v) for v in m.get("checks_run", {}).values()) else "caught"
    rows.append((i, m["property"], rnd, first, ", ".join(m.get("caught_by", [])), m["summary"].replace("|", "/")[:140]))
out = ["# Seeded breaking changes", "",
       "Every directory holds `patch.diff` (apply with `git -C /repo apply`, undo with `git -C /repo checkout -- .`; `tools/with_patch.sh` does both),",
       "the demonstration written by the change's author, the author's notes (`AGENT-README.md`) and `meta.json` (what it needs to manifest, what was",
       "confirmed, which checks were run and what they said). `sweep/` holds the results of the two mutation sweeps (`tools/mutation_sweep.py`);",
       "`RECHECK.txt` is the last run of `tools/recheck_seeded.sh` (every line must say `exit=1`). Regenerate this file with `tools/mkindex.py`.", "",
       "| id | property | round | first run | caught by | change |", "|---|---|---|---|---|---|"]
for r in rows:
    out.append("| " + " | ".join(r) + " |")
n = len(rows); adv = sum(1 for r in rows if r[2] == "adversarial"); first_ok = sum(1 for r in rows if r[3].startswith("caught"))
out += ["", f"{n} changes: {n - adv} independent, {adv} adversarial; {first_ok} caught by the checks as they stood, {n - first_ok} only after the strengthening recorded in their meta.json and in DESIGN.md 9.6."]
open(root + "/INDEX.md", "w").write("\n".join(out) + "\n")
print(out[-1])
