#!/usr/bin/env python3
"""Systematic sensitivity sweep: small syntactic mutants of the code regions the claimed properties are anchored in.

For every mutant: (1) `cargo check` of the touched crate inside /repo (mutants that do not compile are dropped),
(2) the relevant quick checks, cheapest first, until one reports a violation. /repo is restored after every mutant.
Results go to /verif/seeded/sweep/results.jsonl (one line per mutant) and a summary table on stdout.

This is a measuring tool for the framework, not a registered check. Survivors need triage by a human: equivalent
mutant, change outside the claimed properties, or a gap in the checks.

usage: tools/mutation_sweep.py [--only REGION] [--limit N]
"""
import json
import os
import re
import subprocess
import sys
import time

REPO = "/repo"
VERIF = "/verif"
OUT = os.path.join(VERIF, "seeded", "sweep")

# region name -> (file, crate for cargo check, (first line, last line) or None, checks in order, env overrides)
REGIONS = {
    "lexer": ("src/lexer.rs", "logos", None, ["C14", "C15", "C07"]),
    "source": ("src/source.rs", "logos", (80, 235), ["C15", "C14", "C07"]),
    "fork_eoi": ("logos-codegen/src/generator/fork.rs", "logos-codegen", (27, 60), ["C07"]),
    "fast_loop": ("logos-codegen/src/generator/fast_loop.rs", "logos-codegen", None, ["C07"]),
    "cli": ("logos-cli/src/main.rs", "logos-cli", (31, 100), ["C17"]),
    "strip": ("logos-codegen/src/lib.rs", "logos-codegen", (448, 500), ["C17"]),
    "sorts": ("logos-codegen/src", "logos-codegen", None, ["C16"]),
    # second sweep: the rest of the code generator, where most mutants change ordinary and partial lexing alike (C01-C03,
    # not C07); survivors are triaged with the help of `ref_disagree` (one-shot lexing deviates from the reference model)
    "fork_rest": ("logos-codegen/src/generator/fork.rs", "logos-codegen", (60, 229), ["C07"]),
    "leaf": ("logos-codegen/src/generator/leaf.rs", "logos-codegen", (12, 93), ["C07"]),
    "gen_mod": ("logos-codegen/src/generator/mod.rs", "logos-codegen", (175, 330), ["C07"]),
    "graph_rewrite": ("logos-codegen/src/graph/mod.rs", "logos-codegen", (498, 612), ["C07"]),
}
SECOND = ("fork_rest", "leaf", "gen_mod", "graph_rewrite")
QUICK_ENV = {"C14": "150000", "C15": "100000", "C07": "400000", "C17": "700"}

SWAPS = [
    (r"<=", "<"), (r">=", ">"), (r" < ", " <= "), (r" > ", " >= "),
    (r"==", "!="), (r"!=", "=="), (r"&&", "||"), (r"\|\|", "&&"),
    (r"\btrue\b", "false"), (r"\bfalse\b", "true"),
    (r"\btoken_start\b", "token_end"), (r"\btoken_end\b", "token_start"),
    (r"\+ 1\b", "+ 0"), (r"\+= 1\b", "+= 0"), (r"- 1\b", "- 0"), (r"\+= n\b", "+= 0"),
    (r"\.is_some\(\)", ".is_none()"), (r"\.is_none\(\)", ".is_some()"), (r"\.is_empty\(\)", ".len() == 1"),
    (r"!(?=[a-zA-Z_(])", ""), (r"\bif (?!let)", "if !"),
    (r"\bself\.is_prefix\b", "false"), (r"\blex\.is_prefix\(\)", "false"),
    (r"\.checked_add\(n\)\.expect\(\"Invalid Lexer bump\"\)", ".wrapping_add(n)"),
    (r"\.lines\(\)", ".split('\\n')"), (r"NotFound", "PermissionDenied"), (r"args\.check", "false"), (r"args\.format", "false"),
    (r"\.retain\(", ".retain(|_| true); let _ = ("),
]


def sh(cmd, cwd=None, env=None, timeout=3000):
    e = dict(os.environ)
    e["CARGO_NET_OFFLINE"] = "true"
    if env:
        e.update(env)
    return subprocess.run(cmd, cwd=cwd, env=e, stdout=subprocess.PIPE, stderr=subprocess.STDOUT, text=True, timeout=timeout)


def restore():
    subprocess.run(["git", "-C", REPO, "checkout", "--", "."], check=True)


def mutants_for(region):
    file, crate, rng, checks = REGIONS[region]
    out = []
    if region == "sorts":
        # delete every line that sorts something in logos-codegen
        for root, _, files in os.walk(os.path.join(REPO, file)):
            for fn in files:
                if not fn.endswith(".rs"):
                    continue
                p = os.path.join(root, fn)
                rel = os.path.relpath(p, REPO)
                lines = open(p).read().split("\n")
                for i, l in enumerate(lines):
                    if re.search(r"\.sort(_unstable)?(_by(_key)?)?\(", l) and l.strip().endswith(";"):
                        out.append((rel, i, "", f"delete `{l.strip()}`"))
        return out
    p = os.path.join(REPO, file)
    lines = open(p).read().split("\n")
    lo, hi = (rng[0] - 1, rng[1]) if rng else (0, len(lines))
    in_comment_or_test = False
    for i in range(lo, min(hi, len(lines))):
        l = lines[i]
        st = l.strip()
        if st.startswith("//") or st.startswith("#[") or st.startswith("///") or not st:
            continue
        if "#[cfg(test)]" in l:
            break
        # statement deletion
        if st.endswith(";") and not st.startswith(("let ", "use ", "pub ", "type ", "const ", "static ", "return", "}")) and "=>" not in st:
            out.append((file, i, "", f"delete `{st}`"))
        for pat, rep in SWAPS:
            for m in re.finditer(pat, l):
                # skip matches inside string literals / comments (cheap test)
                before = l[:m.start()]
                if before.count('"') % 2 == 1 or "//" in before:
                    continue
                new = l[:m.start()] + rep + l[m.end():]
                if new != l:
                    out.append((file, i, new, f"`{st}` -> `{new.strip()}`"))
    # dedupe
    seen, uniq = set(), []
    for m in out:
        k = (m[0], m[1], m[2])
        if k not in seen:
            seen.add(k)
            uniq.append(m)
    return uniq


def apply(mut):
    file, i, new, _ = mut
    p = os.path.join(REPO, file)
    lines = open(p).read().split("\n")
    if new == "":
        del lines[i]
    else:
        lines[i] = new
    open(p, "w").write("\n".join(lines))


def main():
    only = None
    limit = None
    args = sys.argv[1:]
    while args:
        a = args.pop(0)
        if a == "--only":
            only = args.pop(0)
        elif a == "--limit":
            limit = int(args.pop(0))
    if subprocess.run(["git", "-C", REPO, "status", "--porcelain", "--untracked-files=no"], stdout=subprocess.PIPE, text=True).stdout.strip():
        print("sweep: /repo has uncommitted changes", file=sys.stderr)
        return 2
    os.makedirs(OUT, exist_ok=True)
    res_path = os.path.join(OUT, "results.jsonl")
    done = set()
    if os.path.exists(res_path):
        for l in open(res_path):
            r = json.loads(l)
            done.add((r["region"], r["file"], r["line"], r["description"]))
    for region in REGIONS:
        if only and region != only and not (only == "second" and region in SECOND):
            continue
        if not only and region in SECOND:
            continue
        file, crate, rng, checks = REGIONS[region]
        muts = mutants_for(region)
        if limit and len(muts) > limit:
            # an evenly spread sample
            step = len(muts) / limit
            muts = [muts[int(i * step)] for i in range(limit)]
        print(f"== region {region}: {len(muts)} mutants", flush=True)
        for mut in muts:
            key = (region, mut[0], mut[1] + 1, mut[3])
            if key in done:
                continue
            t0 = time.time()
            rec = {"region": region, "file": mut[0], "line": mut[1] + 1, "description": mut[3]}
            try:
                apply(mut)
                c = sh(["cargo", "check", "--offline", "-q", "-p", crate], cwd=REPO)
                if c.returncode != 0:
                    rec["status"] = "does-not-compile"
                else:
                    rec["status"] = "survived"
                    rec["checks"] = {}
                    for chk in checks:
                        env = {"VERIF_RUNS": QUICK_ENV[chk]} if chk in QUICK_ENV else {}
                        r = sh([os.path.join(VERIF, "check"), chk, "--tier", "quick"], cwd=VERIF, env=env)
                        rec["checks"][chk] = r.returncode
                        if r.returncode == 1:
                            rec["status"] = "killed"
                            rec["killed_by"] = chk
                            what = [l.strip() for l in r.stdout.splitlines() if l.strip().startswith("what:")]
                            sig = [l.strip() for l in r.stdout.splitlines() if l.strip().startswith("signature:")]
                            rec["first_report"] = (what[0][:300] if what else "")
                            rec["signature"] = (sig[0][:160] if sig else "")
                            break
                        if r.returncode == 2:
                            rec["status"] = "harness-error"
                            rec["error_tail"] = r.stdout[-400:]
                            break
                        if chk == "C07" and r.returncode == 0:
                            try:
                                ev = json.load(open(os.path.join(VERIF, "evidence", "C07.json")))
                                rec["ref_disagree"] = ev["coverage"].get("ref_disagree", 0)
                            except Exception:
                                pass
            finally:
                restore()
            rec["seconds"] = round(time.time() - t0, 1)
            with open(res_path, "a") as f:
                f.write(json.dumps(rec) + "\n")
            print(f"  {rec['status']:18s} {rec.get('killed_by', ''):4s} {mut[0]}:{mut[1] + 1} {mut[3][:110]}", flush=True)
    return 0


if __name__ == "__main__":
    sys.exit(main())
