#!/bin/bash
# Re-run, on the current framework, the quick check of its property against every kept seeded change.
# Every line must say exit=1. Uses tools/seedlab.sh (a scratch copy of /repo and of /verif under /tmp/seedlab), so /repo
# itself is never touched. Takes about an hour.
cd /verif || exit 2
fail=0
for d in seeded/*/; do
  id=$(basename "$d")
  [ -f "$d/meta.json" ] || continue
  # optional: RECHECK_FROM=<id> skips everything before that id
  if [ -n "${RECHECK_FROM:-}" ] && [[ "$id" < "$RECHECK_FROM" ]]; then continue; fi
  prop=$(python3 -c "import json;print(json.load(open('$d/meta.json'))['property'])")
  # a change written against one property may be the business of another check (see its meta.json)
  alt=$(python3 -c "import json;m=json.load(open('$d/meta.json'));c=[x.split('/')[0] for x in m.get('caught_by',[])];print(c[0] if c and '$prop' not in c else '$prop')")
  out=$(tools/seedlab.sh "$d/patch.diff" "$alt" 2>/dev/null); code=$?
  n=$(echo "$out" | grep -c '^VIOLATION')
  echo "$id $alt exit=$code violations=$n $(echo "$out" | grep -m1 'signature:' | cut -c1-90)"
  [ "$code" = 1 ] || fail=1
done
exit $fail
