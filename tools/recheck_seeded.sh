#!/bin/bash
# Re-run, on the current framework, the quick check of its property against every kept seeded change.
# Every line must say exit=1. Takes about half an hour; /repo is restored after every patch.
cd /verif || exit 2
fail=0
for d in seeded/*/; do
  id=$(basename "$d")
  [ -f "$d/meta.json" ] || continue
  prop=$(python3 -c "import json;print(json.load(open('$d/meta.json'))['property'])")
  out=$(tools/with_patch.sh "$d/patch.diff" ./check "$prop" --tier quick 2>/dev/null); code=$?
  n=$(echo "$out" | grep -c '^VIOLATION')
  echo "$id $prop exit=$code violations=$n $(echo "$out" | grep -m1 'signature:' | cut -c1-90)"
  [ "$code" = 1 ] || fail=1
done
git -C /repo status --short
exit $fail
