#!/bin/bash
# usage: tools/confirm_demo_sh.sh <worktree>  — for seeded changes whose demo is SEEDED/demo/demo.sh (exit 0 = property holds)
w="$1"; shift
cd "$w" || exit 2
echo "== existing suite with patch"; CARGO_NET_OFFLINE=true cargo test --workspace --no-fail-fast --offline 2>&1 | grep -E "^test result" | awk '{p+=$4; f+=$6} END {print "passed",p,"failed",f}'
echo "== demo with patch"; bash SEEDED/demo/demo.sh "$@" 2>&1 | tail -5; echo "exit=${PIPESTATUS[0]}"
git apply -R SEEDED/patch.diff
echo "== demo without patch"; bash SEEDED/demo/demo.sh "$@" 2>&1 | tail -5; echo "exit=${PIPESTATUS[0]}"
git apply SEEDED/patch.diff; git status --short | grep -v SEEDED
