#!/usr/bin/env python3
"""mkpatch.py OUT FILE OLD NEW [FILE OLD NEW ...]: make a git patch for /repo by exact text replacement (repo is restored)."""
import subprocess, sys
out = sys.argv[1]
trip = sys.argv[2:]
assert len(trip) % 3 == 0
try:
    for i in range(0, len(trip), 3):
        f, old, new = trip[i:i+3]
        p = '/repo/' + f
        s = open(p).read()
        if s.count(old) != 1:
            print(f"mkpatch: {f}: old text occurs {s.count(old)} times", file=sys.stderr); sys.exit(2)
        open(p, 'w').write(s.replace(old, new))
    d = subprocess.run(['git', '-C', '/repo', 'diff'], stdout=subprocess.PIPE, text=True).stdout
    open(out, 'w').write(d)
finally:
    subprocess.run(['git', '-C', '/repo', 'checkout', '--', '.'])
