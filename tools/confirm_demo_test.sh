#!/bin/bash
# usage: tools/confirm_demo_test.sh <worktree> [extra cargo test args]  — for seeded changes whose demo is SEEDED/demo/seeded_demo.rs
w="$1"; shift
cd "$w" || exit 2
echo "== existing suite with patch"; CARGO_NET_OFFLINE=true cargo test --workspace --no-fail-fast --offline 2>&1 | grep -E "^test result" | awk '{p+=$4; f+=$6} END {print "passed",p,"failed",f}'
cp SEEDED/demo/seeded_demo.rs tests/tests/seeded_demo.rs
echo "== demo with patch"; CARGO_NET_OFFLINE=true cargo test -p tests --test seeded_demo --offline "$@" 2>&1 | grep -E "test result"
git apply -R SEEDED/patch.diff
echo "== demo without patch"; CARGO_NET_OFFLINE=true cargo test -p tests --test seeded_demo --offline "$@" 2>&1 | grep -E "test result"
git apply SEEDED/patch.diff; rm tests/tests/seeded_demo.rs; git status --short
