#!/bin/bash
# usage: tools/with_patch.sh <patch-file> <command...>
# Applies a patch to /repo's working tree, runs the command from /verif, and always restores /repo.
set -u
patch="$(realpath "$1")"; shift
if [ -n "$(git -C /repo status --porcelain --untracked-files=no)" ]; then echo "with_patch: /repo has uncommitted changes" >&2; exit 2; fi
git -C /repo apply "$patch" || { echo "with_patch: patch does not apply" >&2; exit 2; }
trap 'git -C /repo checkout -- . ; git -C /repo clean -fdq -- src logos-codegen/src logos-cli/src logos-derive/src 2>/dev/null' EXIT
cd /verif && "$@"
