#!/bin/bash
# usage: tools/seedlab.sh <patch-file> <property> [check args..]
# Runs ./check for one property against a SCRATCH COPY of /repo with the patch applied, from a scratch copy of /verif whose
# path dependencies point at that copy — /repo itself is not touched, so this can run while other checks use /repo.
# The lab lives in /tmp/seedlab (created on first use, build output kept between calls; remove it when done).
set -u
patch="$(realpath "$1")"; prop="$2"; shift 2
lab=/tmp/seedlab
# one user of the lab at a time
exec 9>/tmp/seedlab.lock
flock 9
if [ ! -d $lab/repo ]; then
  mkdir -p $lab && git -C /repo worktree add --detach $lab/repo HEAD -q || exit 2
fi
git -C $lab/repo checkout -q --detach "$(git -C /repo rev-parse HEAD)" && git -C $lab/repo checkout -- . && git -C $lab/repo clean -fdq -- src logos-codegen/src logos-cli/src logos-derive/src
mkdir -p $lab/verif
# the COMMITTED state of /verif (so that edits in progress do not leak into the lab); file times are kept per content so that
# cargo does not rebuild what did not change
rm -rf $lab/export && mkdir -p $lab/export && git -C /verif archive HEAD -- check sim known_findings.json properties.jsonl tools | tar -x -C $lab/export
rsync -rlpc --delete --exclude target --exclude replays --exclude evidence $lab/export/ $lab/verif/
mkdir -p $lab/verif/evidence $lab/verif/replays
grep -rl '"/repo' $lab/verif/sim/*/Cargo.toml | xargs sed -i "s#\"/repo#\"$lab/repo#g"
git -C $lab/repo apply "$patch" || { echo "seedlab: patch does not apply" >&2; exit 2; }
cd $lab/verif && VERIF_REPO=$lab/repo ./check "$prop" --tier quick "$@"
code=$?
git -C $lab/repo checkout -- . ; git -C $lab/repo clean -fdq -- src logos-codegen/src logos-cli/src logos-derive/src
exit $code
