#!/bin/bash
# usage: tools/keep_seeded.sh <worktree> <ID>   — copy patch, demo and the agent's notes into /verif/seeded/<ID>
w="$1"; d="/verif/seeded/$2"
mkdir -p "$d" && cp "$w/SEEDED/patch.diff" "$d/" && rm -rf "$d/demo" && cp -r "$w/SEEDED/demo" "$d/demo" && cp "$w/SEEDED/README.md" "$d/AGENT-README.md"
find "$d" -name target -type d -prune -exec rm -rf {} \; 2>/dev/null
ls "$d"
