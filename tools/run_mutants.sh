#!/bin/bash
# usage: tools/run_mutants.sh <property> <patch>...   — applies each patch to /repo, runs the quick check, restores /repo
prop="$1"; shift
for p in "$@"; do
  out=$(/verif/tools/with_patch.sh "$p" ./check "$prop" --tier quick 2>/tmp/mut/last.err); code=$?
  n=$(echo "$out" | grep -c '^VIOLATION')
  first=$(echo "$out" | grep -m1 'what:' | cut -c1-220)
  echo "$(basename $p): exit=$code violations=$n $first"
done
