// THROW-AWAY PROBE (round 0), kept for reference only: prototype of the C07 oracles P1/P5/P6 and the
// reference-DFA determinedness test of DESIGN.md section 4.1.5. Not part of the framework, not built by any check.
// Cargo deps used: logos (path /repo), regex-automata 0.4.9, regex-syntax 0.8.5; run with --release -- <n inputs>.

use logos::{Lexer, Logos};
use regex_automata::{dfa::{dense, Automaton, StartKind}, nfa::thompson, util::primitives::StateID, Anchored, MatchKind};
use std::collections::{BTreeSet, HashMap, HashSet};

// ---------- definitions (explicit priorities) + metadata ----------
macro_rules! defs {
    ($( $name:ident utf8=$utf8:tt look=$look:tt { $( [$kind:ident $pat:literal $prio:literal $emit:ident] => $var:ident ),* $(,)? } )*) => {
        $( defs!(@enum $name $utf8 { $( [$kind $pat $prio $emit] => $var ),* }); )*
    };
    (@enum $name:ident true { $( [$kind:ident $pat:literal $prio:literal $emit:ident] => $var:ident ),* }) => {
        #[derive(Logos, Debug, Clone, Copy, PartialEq)]
        enum $name { $( #[$kind($pat, priority = $prio)] $var ),* }
    };
}

// Hand-written because skip needs callbacks
#[derive(Logos, Debug, Clone, Copy, PartialEq)]
enum Kw {
    #[token("abc", priority = 6)] Abc,
    #[token("abcd", priority = 8)] Abcd,
    #[regex("[a-d]+", priority = 1)] Id,
    #[regex("[ ]+", logos::skip, priority = 2)] Sp,
}
const KW: &[(&str, bool, usize, bool)] = &[("abc", true, 6, true), ("abcd", true, 8, true), ("[a-d]+", false, 1, true), ("[ ]+", false, 2, false)];

#[derive(Logos, Debug, Clone, Copy, PartialEq)]
enum Num {
    #[regex("[0-9]+", priority = 2)] Int,
    #[regex(r"[0-9]+\.[0-9]+", priority = 3)] Float,
    #[regex(r"[0-9]+\.[0-9]+e[0-9]+", priority = 4)] Exp,
    #[token(".", priority = 2)] Dot,
    #[token("...", priority = 6)] Ell,
    #[regex("[ ]", logos::skip, priority = 2)] Sp,
}
const NUM: &[(&str, bool, usize, bool)] = &[("[0-9]+", false, 2, true), (r"[0-9]+\.[0-9]+", false, 3, true), (r"[0-9]+\.[0-9]+e[0-9]+", false, 4, true), (".", true, 2, true), ("...", true, 6, true), ("[ ]", false, 2, false)];

#[derive(Logos, Debug, Clone, Copy, PartialEq)]
enum Uni {
    #[regex(r"\p{L}+", priority = 2)] Word,
    #[regex(r"[0-9]+", priority = 2)] Int,
    #[token("é€", priority = 10)] Special,
    #[regex(r"\s", logos::skip, priority = 2)] Sp,
}
const UNI: &[(&str, bool, usize, bool)] = &[(r"\p{L}+", false, 2, true), (r"[0-9]+", false, 2, true), ("é€", true, 10, true), (r"\s", false, 2, false)];

#[derive(Logos, Debug, Clone, Copy, PartialEq)]
enum Str {
    #[regex(r#""([^"\\]|\\.)*""#, priority = 4)] S,
    #[regex(r"//[^\n]*", priority = 4, allow_greedy = true)] LineComment,
    #[regex(r"/\*([^*]|\*[^/])*\*/", priority = 6)] Block,
    #[token("/", priority = 2)] Slash,
    #[regex("[a-z]+", priority = 2)] Id,
    #[regex(r"[ \n]+", logos::skip, priority = 2)] Sp,
}
const STR: &[(&str, bool, usize, bool)] = &[(r#""([^"\\]|\\.)*""#, false, 4, true), (r"//[^\n]*", false, 4, true), (r"/\*([^*]|\*[^/])*\*/", false, 6, true), ("/", true, 2, true), ("[a-z]+", false, 2, true), (r"[ \n]+", false, 2, false)];

#[derive(Logos, Debug, Clone, Copy, PartialEq)]
enum Look {
    #[regex(r"a|bc(?-u:\b)", priority = 2)] L,
    #[regex(r"x+$", priority = 2)] XEnd,
    #[regex(r"(?m)y+$", priority = 2)] YEol,
    #[token("\n", priority = 2)] Nl,
    #[regex("[ ]+", logos::skip, priority = 2)] Sp,
    #[regex("[xyz]", priority = 1)] Single,
    #[regex("q$", priority = 2)] QEnd,
    #[token("r", priority = 4)] R,
}
const LOOK: &[(&str, bool, usize, bool)] = &[(r"a|bc(?-u:\b)", false, 2, true), (r"x+$", false, 2, true), (r"(?m)y+$", false, 2, true), ("\n", true, 2, true), ("[ ]+", false, 2, false), ("[xyz]", false, 1, true), ("q$", false, 2, true), ("r", true, 4, true)];

// ---------- reference ----------
struct Ref { dfa: dense::DFA<Vec<u32>>, start: StateID, prio: Vec<usize>, emits: Vec<bool>, crm: HashSet<StateID> }
#[derive(Debug, Clone, PartialEq)]
enum Det { Undetermined, Match { end: usize, pat: usize }, Error { end: usize } }

impl Ref {
    fn new(pats: &[(&str, bool, usize, bool)]) -> Ref {
        let hirs: Vec<_> = pats.iter().map(|(p, lit, _, _)| {
            if *lit { regex_syntax::hir::Hir::literal(p.as_bytes()) } else { regex_syntax::ParserBuilder::new().utf8(false).build().parse(p).unwrap() }
        }).collect();
        let nfa = thompson::NFA::compiler().configure(thompson::NFA::config().utf8(true).shrink(true)).build_many_from_hir(&hirs).unwrap();
        let dfa = dense::DFA::builder().configure(dense::DFA::config().match_kind(MatchKind::All).start_kind(StartKind::Anchored).minimize(false).accelerate(false)).build_from_nfa(&nfa).unwrap();
        let start = dfa.universal_start_state(Anchored::Yes).unwrap();
        let mut r = Ref { dfa, start, prio: pats.iter().map(|p| p.2).collect(), emits: pats.iter().map(|p| p.3).collect(), crm: HashSet::new() };
        r.crm = r.can_reach_match();
        r
    }
    fn winner(&self, s: StateID) -> Option<usize> {
        if !self.dfa.is_match_state(s) { return None; }
        (0..self.dfa.match_len(s)).map(|i| self.dfa.match_pattern(s, i).as_usize()).max_by_key(|&p| self.prio[p])
    }
    fn succ(&self, s: StateID) -> Vec<StateID> {
        let mut v: Vec<StateID> = (0..=255u8).map(|b| self.dfa.next_state(s, b)).collect();
        v.push(self.dfa.next_eoi_state(s));
        v
    }
    fn can_reach_match(&self) -> HashSet<StateID> {
        let mut all = HashSet::new(); let mut stack = vec![self.start]; all.insert(self.start);
        let mut preds: HashMap<StateID, Vec<StateID>> = HashMap::new();
        while let Some(s) = stack.pop() { for t in self.succ(s) { preds.entry(t).or_default().push(s); if all.insert(t) { stack.push(t); } } }
        let mut good = HashSet::new();
        let mut st: Vec<StateID> = all.iter().cloned().filter(|s| self.dfa.is_match_state(*s)).collect();
        let mut seen: HashSet<StateID> = st.iter().cloned().collect();
        while let Some(m) = st.pop() { if let Some(ps) = preds.get(&m) { for &p in ps { good.insert(p); if seen.insert(p) { st.push(p); } } } }
        good
    }
    /// First item starting at 0 of `p`, where `complete` says whether p is the whole input.
    /// For a prefix (complete=false) returns Undetermined when a continuation could change it.
    fn first(&self, p: &[u8], complete: bool, is_str: bool) -> Det {
        let mut s = self.start; let mut best: Option<(usize, usize)> = None;
        let round = |mut e: usize| { if is_str { while e < p.len() && (p[e] & 0xC0) == 0x80 { e += 1; } } e };
        for (i, &b) in p.iter().enumerate() {
            s = self.dfa.next_state(s, b);
            if let Some(w) = self.winner(s) { best = Some((i, w)); }
            let viable = self.crm.contains(&s);
            if !viable {
                // died at byte i (state after reading byte i cannot reach any further match)
                return match best { Some((e, w)) => Det::Match { end: e, pat: w }, None => Det::Error { end: round(i.max(1)) } };
            }
        }
        if complete {
            let e = self.dfa.next_eoi_state(s);
            if let Some(w) = self.winner(e) { best = Some((p.len(), w)); }
            return match best { Some((e, w)) => Det::Match { end: e, pat: w }, None => Det::Error { end: round(p.len().max(1)) } };
        }
        // alive at end of prefix
        let outs: BTreeSet<Option<usize>> = self.succ(s).into_iter().map(|t| self.winner(t)).collect();
        let longer = (0..=255u8).any(|b| self.crm.contains(&self.dfa.next_state(s, b)));
        if longer || outs.len() != 1 { return Det::Undetermined; }
        match outs.into_iter().next().unwrap() {
            Some(w) => Det::Match { end: p.len(), pat: w },
            None => match best { Some((e, w)) => Det::Match { end: e, pat: w }, None => Det::Undetermined /* error end depends on next byte; treat as undetermined */ },
        }
    }
}

// ---------- glue ----------
type Items = Vec<(String, std::ops::Range<usize>)>;
fn run<'s, T: Logos<'s, Source = str> + std::fmt::Debug>(mut lx: Lexer<'s, T>) -> (Items, std::ops::Range<usize>) where T::Error: std::fmt::Debug {
    let mut v = Vec::new();
    while let Some(t) = lx.next() { v.push((format!("{:?}", t), lx.span())); if v.len() > 10_000 { panic!("runaway"); } }
    (v, lx.span())
}

struct Rng(u64);
impl Rng { fn next(&mut self) -> u64 { self.0 = self.0.wrapping_add(0x9E3779B97F4A7C15); let mut z = self.0; z = (z ^ (z >> 30)).wrapping_mul(0xBF58476D1CE4E5B9); z = (z ^ (z >> 27)).wrapping_mul(0x94D049BB133111EB); z ^ (z >> 31) } fn below(&mut self, n: usize) -> usize { (self.next() % n as u64) as usize } }

fn gen_input(r: &Ref, rng: &mut Rng, alphabet: &[&str]) -> String {
    let mut out = Vec::new();
    let segs = 1 + rng.below(5);
    for _ in 0..segs {
        match rng.below(4) {
            0 => out.extend_from_slice(alphabet[rng.below(alphabet.len())].as_bytes()),
            _ => { // DFA random walk over viable bytes
                let mut s = r.start; let steps = 1 + rng.below(8);
                for _ in 0..steps {
                    let cands: Vec<u8> = (0..=255u8).filter(|&b| { let t = r.dfa.next_state(s, b); r.crm.contains(&t) || r.dfa.is_match_state(t) }).collect();
                    if cands.is_empty() { break; }
                    // prefer ASCII & a few chosen
                    let b = cands[rng.below(cands.len())];
                    out.push(b); s = r.dfa.next_state(s, b);
                }
            }
        }
    }
    String::from_utf8_lossy(&out).into_owned()
}

struct Stats { prefixes: u64, none_pending: u64, p1: u64, p5: u64, p5_lag1: u64, p6: u64, disagree: u64 }

fn check<F1, F2>(name: &str, pats: &[(&str, bool, usize, bool)], has_look: bool, alphabet: &[&str], one: F1, part: F2, seed: u64, n: usize)
where F1: Fn(&str) -> (Items, std::ops::Range<usize>), F2: Fn(&str) -> (Items, std::ops::Range<usize>) {
    let r = Ref::new(pats);
    let mut rng = Rng(seed);
    let mut st = Stats { prefixes: 0, none_pending: 0, p1: 0, p5: 0, p5_lag1: 0, p6: 0, disagree: 0 };
    let mut shown = 0;
    for _ in 0..n {
        let s = gen_input(&r, &mut rng, alphabet);
        let (full, _) = one(&s);
        // reference agreement precheck on whole input
        let mut pos = 0; let mut ref_items: Vec<(usize, std::ops::Range<usize>)> = Vec::new(); let mut agree = true;
        let sb = s.as_bytes();
        while pos < sb.len() {
            match r.first(&sb[pos..], true, true) {
                Det::Match { end, pat } => { if r.emits[pat] { ref_items.push((pat, pos..pos + end)); } if end == 0 { agree = false; break; } pos += end; }
                Det::Error { end } => { ref_items.push((usize::MAX, pos..pos + end)); pos += end; }
                Det::Undetermined => unreachable!(),
            }
        }
        if ref_items.len() != full.len() || ref_items.iter().zip(full.iter()).any(|(a, b)| a.1 != b.1 || (a.0 == usize::MAX) != b.0.starts_with("Err")) { agree = false; }
        if !agree { st.disagree += 1; if shown < 3 { shown += 1; println!("  [{name}] REF DISAGREE on {:?}: logos={:?} ref={:?}", s, full, ref_items); } continue; }
        for k in 0..=s.len() {
            if !s.is_char_boundary(k) { continue; }
            st.prefixes += 1;
            let (items, span) = part(&s[..k]);
            // P1
            if items.len() > full.len() || items.iter().zip(full.iter()).any(|(a, b)| a != b) {
                st.p1 += 1; if shown < 12 { shown += 1; println!("  [{name}] P1 VIOLATION s={:?} k={} partial={:?} full={:?}", s, k, items, full); }
                continue;
            }
            let r0 = span.start;
            if span.start != span.end { println!("  [{name}] P2 nonempty span at None: {:?}", span); }
            // P6: each committed item determined by buffer
            for (txt, sp) in &items {
                let d = r.first(&sb[sp.start..k], false, true);
                let ok = match &d { Det::Match { end, .. } => sp.start + end == sp.end && !txt.starts_with("Err"), Det::Error { end } => sp.start + end == sp.end && txt.starts_with("Err"), Det::Undetermined => false };
                if !ok { st.p6 += 1; if shown < 12 { shown += 1; println!("  [{name}] P6 VIOLATION s={:?} k={} item={:?}@{:?} ref={:?}", s, k, txt, sp, d); } }
            }
            // P5: pending at r0
            if r0 < k {
                st.none_pending += 1;
                let d = r.first(&sb[r0..k], false, true);
                let emitting = match &d { Det::Match { pat, .. } => r.emits[*pat], Det::Error { .. } => true, Det::Undetermined => false };
                if emitting {
                    if !has_look { st.p5 += 1; if shown < 12 { shown += 1; println!("  [{name}] P5 VIOLATION s={:?} k={} pending={:?} ref={:?}", s, k, &s[r0..k], d); } }
                    else {
                        // look-around: violation only if already determined one byte (char) earlier
                        let mut k1 = k - 1; while !s.is_char_boundary(k1) { k1 -= 1; }
                        if k1 > r0 || k1 == r0 { 
                            let d1 = if k1 > r0 { r.first(&sb[r0..k1], false, true) } else { Det::Undetermined };
                            let em1 = match &d1 { Det::Match { pat, .. } => r.emits[*pat], Det::Error { .. } => true, Det::Undetermined => false };
                            if em1 && d1 == d { st.p5 += 1; if shown < 12 { shown += 1; println!("  [{name}] P5(lag>1) VIOLATION s={:?} k={} pending={:?} ref={:?}", s, k, &s[r0..k], d); } } else { st.p5_lag1 += 1; }
                        }
                    }
                }
            }
        }
    }
    println!("[{name}] prefixes={} none_pending={} P1={} P5={} (lag1 allowed={}) P6={} ref_disagree={}", st.prefixes, st.none_pending, st.p1, st.p5, st.p5_lag1, st.p6, st.disagree);
}

fn main() {
    let n: usize = std::env::args().nth(1).map(|s| s.parse().unwrap()).unwrap_or(2000);
    check("Kw", KW, false, &["abc", "abcd", "ab", " ", "  ", "abcda", "e"], |s| run(Lexer::<Kw>::new(s)), |s| run(Lexer::<Kw>::new_partial(s)), 1, n);
    check("Num", NUM, false, &["1", "1.5", "1.5e3", ".", "..", "...", " ", "1.", "1.5e", "x"], |s| run(Lexer::<Num>::new(s)), |s| run(Lexer::<Num>::new_partial(s)), 2, n);
    check("Uni", UNI, false, &["é", "€", "é€", "ab", "1", " ", "\u{2003}", "ж", "𝔸", "-"], |s| run(Lexer::<Uni>::new(s)), |s| run(Lexer::<Uni>::new_partial(s)), 3, n);
    check("Str", STR, false, &["\"", "\\", "\"a\"", "//", "/*", "*/", "/", "a", "\n", " ", "*", "\"\\\"\""], |s| run(Lexer::<Str>::new(s)), |s| run(Lexer::<Str>::new_partial(s)), 4, n);
    check("Look", LOOK, true, &["a", "bc", "x", "xx", "y", "yy", "\n", " ", "z", "b", "bcx", "bc ", "q", "qr", "qq"], |s| run(Lexer::<Look>::new(s)), |s| run(Lexer::<Look>::new_partial(s)), 5, n);
}
