// THROW-AWAY PROBE (round 0), kept for reference only: LD_PRELOAD cdylib interposing open*/read/write/close for one
// tracked path, with env-driven EINTR / EIO / ENOSPC / short-transfer plans and a call log. Not part of the framework.
// Cargo: crate-type cdylib, dependency libc 0.2 (cached), profile.dev panic=abort. (getrandom interposition: see DESIGN 4.4.1.)

#![allow(clippy::missing_safety_doc)]
use libc::{c_char, c_int, c_void, size_t, ssize_t, mode_t};
use std::sync::atomic::{AtomicI32, AtomicU32, Ordering::SeqCst};

static TRACKED_FD: AtomicI32 = AtomicI32::new(-1);   // fd of the file whose path contains VERIF_TRACK
static READS: AtomicU32 = AtomicU32::new(0);
static WRITES: AtomicU32 = AtomicU32::new(0);

unsafe fn env(name: &[u8]) -> Option<&'static [u8]> {
    let p = libc::getenv(name.as_ptr() as *const c_char);
    if p.is_null() { None } else { Some(std::ffi::CStr::from_ptr(p).to_bytes()) }
}
unsafe fn envnum(name: &[u8]) -> Option<u32> { env(name).and_then(|b| std::str::from_utf8(b).ok()).and_then(|s| s.parse().ok()) }
unsafe fn log(msg: &str) {
    if let Some(p) = env(b"VERIF_SHIM_LOG\0") {
        let fd = libc::syscall(libc::SYS_open, p.as_ptr(), libc::O_WRONLY | libc::O_CREAT | libc::O_APPEND, 0o644) as c_int;
        if fd >= 0 { libc::syscall(libc::SYS_write, fd, msg.as_ptr(), msg.len()); libc::syscall(libc::SYS_close, fd); }
    }
}
unsafe fn track(path: *const c_char, flags: c_int, fd: c_int) {
    if fd < 0 || path.is_null() { return; }
    let p = std::ffi::CStr::from_ptr(path).to_bytes();
    if let Some(t) = env(b"VERIF_TRACK\0") {
        if p.windows(t.len()).any(|w| w == t) {
            TRACKED_FD.store(fd, SeqCst);
            let acc = flags & libc::O_ACCMODE;
            log(&format!("open path={} fd={} mode={}\n", String::from_utf8_lossy(p), fd, if acc == libc::O_RDONLY { "r" } else { "w" }));
        }
    }
}

#[no_mangle] pub unsafe extern "C" fn open64(path: *const c_char, flags: c_int, mode: mode_t) -> c_int {
    let fd = libc::syscall(libc::SYS_openat, libc::AT_FDCWD, path, flags, mode as c_int) as c_int; track(path, flags, fd); fd }
#[no_mangle] pub unsafe extern "C" fn open(path: *const c_char, flags: c_int, mode: mode_t) -> c_int {
    let fd = libc::syscall(libc::SYS_openat, libc::AT_FDCWD, path, flags, mode as c_int) as c_int; track(path, flags, fd); fd }
#[no_mangle] pub unsafe extern "C" fn openat(dir: c_int, path: *const c_char, flags: c_int, mode: mode_t) -> c_int {
    let fd = libc::syscall(libc::SYS_openat, dir, path, flags, mode as c_int) as c_int; track(path, flags, fd); fd }
#[no_mangle] pub unsafe extern "C" fn openat64(dir: c_int, path: *const c_char, flags: c_int, mode: mode_t) -> c_int {
    let fd = libc::syscall(libc::SYS_openat, dir, path, flags, mode as c_int) as c_int; track(path, flags, fd); fd }

#[no_mangle] pub unsafe extern "C" fn read(fd: c_int, buf: *mut c_void, n: size_t) -> ssize_t {
    if fd == TRACKED_FD.load(SeqCst) {
        let i = READS.fetch_add(1, SeqCst);
        if envnum(b"VERIF_READ_EINTR_AT\0") == Some(i) { log("read EINTR\n"); *libc::__errno_location() = libc::EINTR; return -1; }
        if envnum(b"VERIF_READ_EIO_AT\0") == Some(i) { log("read EIO\n"); *libc::__errno_location() = libc::EIO; return -1; }
        if let Some(k) = envnum(b"VERIF_READ_SHORT\0") { let k = (k as usize).min(n); return libc::syscall(libc::SYS_read, fd, buf, k) as ssize_t; }
    }
    libc::syscall(libc::SYS_read, fd, buf, n) as ssize_t
}
#[no_mangle] pub unsafe extern "C" fn write(fd: c_int, buf: *const c_void, n: size_t) -> ssize_t {
    if fd == TRACKED_FD.load(SeqCst) {
        let i = WRITES.fetch_add(1, SeqCst);
        log("write on tracked fd\n");
        if envnum(b"VERIF_WRITE_ENOSPC_AT\0") == Some(i) { *libc::__errno_location() = libc::ENOSPC; return -1; }
        if let Some(k) = envnum(b"VERIF_WRITE_SHORT\0") { let k = (k as usize).min(n); return libc::syscall(libc::SYS_write, fd, buf, k) as ssize_t; }
    }
    libc::syscall(libc::SYS_write, fd, buf, n) as ssize_t
}
#[no_mangle] pub unsafe extern "C" fn close(fd: c_int) -> c_int {
    if fd == TRACKED_FD.load(SeqCst) { TRACKED_FD.store(-1, SeqCst); log("close tracked\n"); }
    libc::syscall(libc::SYS_close, fd) as c_int
}
