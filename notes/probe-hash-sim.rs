// THROW-AWAY PROBE (round 0), kept for reference only: in-process getrandom interposition with a per-thread key slot,
// enum extraction from the repo with syn, generate() under N key draws. Not part of the framework, not built by any check.
// Cargo deps used: logos-codegen (path /repo/logos-codegen), syn 2 (full, visit), proc-macro2, quote.

use std::cell::Cell;
use std::collections::HashSet;
use quote::ToTokens;
use syn::visit::Visit;

thread_local! { static KEYS: Cell<Option<[u8; 16]>> = const { Cell::new(None) }; }

#[no_mangle]
pub unsafe extern "C" fn getrandom(buf: *mut u8, len: usize, _flags: u32) -> isize {
    let k = KEYS.with(|k| k.get());
    match k {
        Some(bytes) => { for i in 0..len { *buf.add(i) = bytes[i % 16]; } len as isize }
        None => { // fall back: fixed bytes for harness threads (good enough for a probe)
            for i in 0..len { *buf.add(i) = 0x5a; } len as isize }
    }
}

struct Finder { found: Vec<String> }
impl<'ast> Visit<'ast> for Finder {
    fn visit_item_enum(&mut self, e: &'ast syn::ItemEnum) {
        let is_logos = e.attrs.iter().any(|a| a.path().is_ident("derive") && a.to_token_stream().to_string().contains("Logos"));
        if is_logos { self.found.push(e.to_token_stream().to_string()); }
    }
}

fn splitmix(x: &mut u64) -> u64 { *x = x.wrapping_add(0x9E3779B97F4A7C15); let mut z = *x; z = (z ^ (z >> 30)).wrapping_mul(0xBF58476D1CE4E5B9); z = (z ^ (z >> 27)).wrapping_mul(0x94D049BB133111EB); z ^ (z >> 31) }

fn run_one(src: String, keys: [u8; 16]) -> (Result<String, String>, Vec<usize>) {
    std::thread::Builder::new().stack_size(64 << 20).spawn(move || {
        KEYS.with(|k| k.set(Some(keys)));
        let ts: proc_macro2::TokenStream = src.parse().unwrap();
        let out = std::panic::catch_unwind(|| logos_codegen::generate(ts).to_string()).map_err(|_| "panic".to_string());
        let canary: HashSet<usize> = (0..8).collect();
        (out, canary.into_iter().collect())
    }).unwrap().join().unwrap()
}

fn main() {
    std::panic::set_hook(Box::new(|_| {}));
    let nseeds: usize = std::env::args().nth(1).map(|s| s.parse().unwrap()).unwrap_or(8);
    let mut files = Vec::new();
    for dir in ["/repo/tests/tests", "/repo/examples", "/repo/logos-codegen/tests/data/codegen", "/repo/logos-cli/tests/data", "/repo/tests/benches"] {
        fn walk(p: &std::path::Path, out: &mut Vec<std::path::PathBuf>) { if let Ok(rd) = std::fs::read_dir(p) { for e in rd.flatten() { let p = e.path(); if p.is_dir() { walk(&p, out) } else if p.extension().map_or(false, |x| x == "rs") { out.push(p) } } } }
        walk(std::path::Path::new(dir), &mut files);
    }
    files.sort();
    let mut defs = Vec::new();
    for f in &files {
        let Ok(text) = std::fs::read_to_string(f) else { continue };
        let Ok(file) = syn::parse_file(&text) else { eprintln!("unparsable {}", f.display()); continue };
        let mut fd = Finder { found: vec![] }; fd.visit_file(&file);
        for d in fd.found { defs.push((f.display().to_string(), d)); }
    }
    println!("files={} definitions={}", files.len(), defs.len());
    let mut x = 42u64; let mut diverged = 0; let mut errors = 0; let mut canaries = HashSet::new(); let mut panics = 0;
    for (f, d) in &defs {
        let mut outs: Vec<Result<String, String>> = Vec::new();
        for _ in 0..nseeds {
            let mut keys = [0u8; 16]; for c in keys.chunks_mut(8) { c.copy_from_slice(&splitmix(&mut x).to_le_bytes()); }
            let (o, c) = run_one(d.clone(), keys); canaries.insert(c); outs.push(o);
        }
        if outs[0].is_err() { panics += 1; }
        if outs[0].as_ref().map_or(false, |s| s.contains("compile_error")) { errors += 1; }
        if outs.iter().any(|o| o != &outs[0]) { diverged += 1; println!("DIVERGED: {} :: {}", f, &d[..d.len().min(120)]); }
    }
    println!("definitions={} seeds_each={} diverged={} rejected(compile_error)={} panics={} distinct_canary_orders={}", defs.len(), nseeds, diverged, errors, panics, canaries.len());
}
